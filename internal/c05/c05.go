// Package c05 decides C05 (handlers bind each parameter from its declared source and enforce requiredness) by
// enumerating parameter kinds x locations x wire aliases x pointer-ness x validators, compiling the five
// generated routers with echoing controllers, and sending, for each parameter, a value alphabet chosen from the
// branch structure of the converters (boundary integers, unicode and URL-reserved characters, odd syntaxes) plus
// the absent case; the recorded arguments and status are compared with a reference binding model.
package c05

import (
	"encoding/json"
	"fmt"
	"math"
	"net/url"
	"os"
	"strconv"
	"strings"
	"sync"
	"time"

	"verif/internal/core"
	"verif/internal/rt"
	"verif/internal/scen"
)

type value struct {
	Raw   string
	Class string // exact | reject | odd
	JSON  string // expected argument JSON for exact values
}

type kind struct {
	Name string
	Go   string // with § for the namespace
	Decl string
	Vals func() []value
	Num  bool
}

func intVals(bits int, signed bool, parseBits int) []value {
	var out []value
	q := func(s string) value { return value{s, "exact", s} }
	if signed {
		min := "-" + new2(bits-1)
		max := dec(new2(bits - 1))
		out = append(out, q(min), q("-1"), q("0"), q("1"), q(max))
		out = append(out, value{inc(new2(bits - 1))[0:0] + "-" + inc(new2(bits-1)), "reject", ""}, value{new2(bits - 1), "reject", ""})
	} else {
		max := dec(new2(bits))
		out = append(out, q("0"), q("1"), q(max))
		out = append(out, value{"-1", "reject", ""}, value{new2(bits), "reject", ""})
	}
	out = append(out, value{"abc", "reject", ""}, value{"1.5", "reject", ""}, value{"", "odd", ""})
	for _, o := range []string{"+5", " 5", "5 ", "05", "0x10", "1e3", "５", "1_000", "--1"} {
		out = append(out, value{o, "odd", ""})
	}
	_ = parseBits
	return out
}

// decimal helpers on strings (2^n, +1, -1) so that 64-bit boundaries need no big-number package
func new2(n int) string {
	s := "1"
	for i := 0; i < n; i++ {
		s = dbl(s)
	}
	return s
}
func dbl(s string) string {
	carry := 0
	out := make([]byte, len(s))
	for i := len(s) - 1; i >= 0; i-- {
		d := int(s[i]-'0')*2 + carry
		out[i] = byte('0' + d%10)
		carry = d / 10
	}
	if carry > 0 {
		return "1" + string(out)
	}
	return string(out)
}
func dec(s string) string {
	b := []byte(s)
	for i := len(b) - 1; i >= 0; i-- {
		if b[i] > '0' {
			b[i]--
			break
		}
		b[i] = '9'
	}
	return strings.TrimLeft(string(b), "0")
}
func inc(s string) string {
	b := []byte(s)
	for i := len(b) - 1; i >= 0; i-- {
		if b[i] < '9' {
			b[i]++
			return string(b)
		}
		b[i] = '0'
	}
	return "1" + string(b)
}

func strVals() []value {
	var out []value
	for _, s := range []string{"a", "a b", "a+b", "a%2Fb", "ü✓", "?", "#", "%", "a&b=c", "x=y", "\"q\"", "long-" + strings.Repeat("z", 200)} {
		j, _ := json.Marshal(s)
		out = append(out, value{s, "exact", string(j)})
	}
	out = append(out, value{"/", "odd", ""}, value{"a/b", "odd", ""}, value{"", "odd", ""}, value{" ", "odd", ""})
	return out
}

func kinds() []kind {
	iv := func(bits int, signed bool) func() []value {
		return func() []value { return intVals(bits, signed, bits) }
	}
	return []kind{
		{"string", "string", "", strVals, false},
		{"int", "int", "", iv(64, true), true},
		{"int8", "int8", "", iv(8, true), true},
		{"int16", "int16", "", iv(16, true), true},
		{"int32", "int32", "", iv(32, true), true},
		{"int64", "int64", "", iv(64, true), true},
		{"uint", "uint", "", iv(64, false), true},
		{"uint8", "uint8", "", iv(8, false), true},
		{"uint16", "uint16", "", iv(16, false), true},
		{"uint32", "uint32", "", iv(32, false), true},
		{"uint64", "uint64", "", iv(64, false), true},
		{"bool", "bool", "", func() []value {
			return []value{{"true", "exact", "true"}, {"false", "exact", "false"}, {"abc", "reject", ""}, {"2", "reject", ""}, {"", "odd", ""},
				{"1", "odd", ""}, {"0", "odd", ""}, {"T", "odd", ""}, {"TRUE", "odd", ""}, {"yes", "reject", ""}}
		}, false},
		{"float64", "float64", "", func() []value {
			return []value{{"0", "exact", "0"}, {"1.5", "exact", "1.5"}, {"-2.25", "exact", "-2.25"}, {"10000000000", "exact", "10000000000"}, {"abc", "reject", ""}, {"", "odd", ""},
				{"1e3", "odd", ""}, {"NaN", "odd", ""}, {"Inf", "odd", ""}, {"0x1p-2", "odd", ""}, {"1,5", "reject", ""}}
		}, true},
		{"float32", "float32", "", func() []value {
			return []value{{"0", "exact", "0"}, {"1.5", "exact", "1.5"}, {"-2.25", "exact", "-2.25"}, {"abc", "reject", ""}, {"", "odd", ""}, {"1e39", "odd", ""}}
		}, true},
		{"enum-string", "E§", "type E§ string\n\nconst (\n\tE§A E§ = \"a\"\n\tE§B E§ = \"b\"\n\tE§Op E§ = \">=\"\n\tE§Amp E§ = \"x&y's\"\n)\n", func() []value {
			return []value{{"a", "exact", `"a"`}, {"b", "exact", `"b"`}, {">=", "exact", `">="`}, {"x&y's", "exact", `"x&y's"`}, {"zz", "odd", ""}, {"", "odd", ""}}
		}, false},
		{"enum-int", "I§", "type I§ int\n\nconst (\n\tI§One I§ = 1\n\tI§Two I§ = 2\n)\n", func() []value {
			return []value{{"1", "exact", "1"}, {"2", "exact", "2"}, {"abc", "reject", ""}, {"7", "odd", ""}, {"", "odd", ""}}
		}, true},
		{"alias-typedef", "TS§", "type TS§ string\n", func() []value {
			return []value{{"a", "exact", `"a"`}, {"a b+c", "exact", `"a b+c"`}, {"", "odd", ""}}
		}, false},
		// slices (query only): the elements travel as repeated keys, \x1f separates them in Raw
		{"[]string", "[]string", "", func() []value {
			return []value{{"a", "exact", `["a"]`}, {"a\x1fb", "exact", `["a","b"]`}, {"b\x1fa\x1fb", "exact", `["b","a","b"]`}, {"a b+c\x1fü✓\x1fx=y&z", "exact", `["a b+c","ü✓","x=y&z"]`}, {"a,b", "exact", `["a,b"]`}}
		}, false},
		{"[]int", "[]int", "", func() []value {
			return []value{{"1", "exact", `[1]`}, {"3\x1f-2\x1f1", "exact", `[3,-2,1]`}, {"9223372036854775807\x1f0", "exact", `[9223372036854775807,0]`}, {"1\x1fx", "reject", ""}, {"1\x1f9223372036854775808", "reject", ""}, {"1,2", "reject", ""}}
		}, false},
		{"[]bool", "[]bool", "", func() []value {
			return []value{{"true\x1ffalse", "exact", `[true,false]`}, {"true\x1fmaybe", "reject", ""}}
		}, false},
		{"[]enum-string", "[]E§", "type E§ string\n\nconst (\n\tE§A E§ = \"a\"\n\tE§B E§ = \"b\"\n)\n", func() []value {
			return []value{{"a\x1fb", "exact", `["a","b"]`}, {"b", "exact", `["b"]`}, {"a\x1fzz", "odd", ""}}
		}, false},
	}
}

// multiParam is one parameter of a several-parameter scenario.
type multiParam struct {
	Name, Type, Loc, Val, JSON string
	NewDecl                    bool
}

type caseInfo struct {
	Multi    []multiParam // several-parameter scenario (signature order); the single-parameter fields are unused
	K        kind
	Loc      string
	Ptr      bool
	Alias    string
	Validate string
	Ctx      bool
	Secured  bool
}

func buildCases(tier string) ([]scen.Case, map[string]caseInfo) {
	var cases []scen.Case
	inf := map[string]caseInfo{}
	n := 0
	for _, k := range kinds() {
		for _, loc := range []string{"Path", "Query", "Header", "FormField"} {
			if strings.HasPrefix(k.Name, "[]") && loc != "Query" {
				continue
			}
			for _, ptr := range []bool{false, true} {
				if ptr && strings.HasPrefix(k.Name, "[]") {
					continue
				}
				for _, alias := range []string{"", "x-alias"} {
					vals := []string{""}
					if k.Num {
						vals = append(vals, "gte=80")
					}
					for _, v := range vals {
						if tier != "thorough" && alias != "" && (ptr || v != "") {
							continue
						}
						id := fmt.Sprintf("b%04d", n)
						n++
						ci := caseInfo{K: k, Loc: loc, Ptr: ptr, Alias: alias, Validate: v, Ctx: n%2 == 0, Secured: n%4 == 0}
						wire := "p"
						if alias != "" {
							wire = alias
						}
						t := strings.ReplaceAll(k.Go, "§", id)
						if ptr {
							t = "*" + t
						}
						route := "/op"
						verb := "GET"
						if loc == "Path" {
							route = "/op/{" + wire + "}"
						}
						if loc == "FormField" {
							verb = "POST"
						}
						m := scen.Method{Name: "Op" + id, Verb: verb, Route: scen.S(route), Ret: "string"}
						if ci.Ctx {
							m.Params = append(m.Params, scen.Param{Name: "ctx", Type: "context.Context"})
						}
						m.Params = append(m.Params, scen.Param{Name: "p", Type: t, In: loc, Alias: alias, Validate: v})
						if ci.Secured {
							m.Security = []scen.Sec{{Scheme: "s1", Scopes: []string{"a"}}}
						}
						ctl := scen.Controller{Name: "C" + id, Pkg: id, Prefix: scen.S("/" + id), Tag: scen.S("T" + id), Methods: []scen.Method{m}}
						u := scen.Unit{Controllers: []scen.Controller{ctl}, Decls: map[string]string{}}
						if k.Decl != "" {
							u.Decls[id] = strings.ReplaceAll(k.Decl, "§", id)
						}
						cases = append(cases, scen.Case{ID: id, Unit: u, Features: map[string]string{"kind": k.Name, "in": loc, "ptr": fmt.Sprint(ptr), "alias": alias, "validate": v}, Desc: ctl})
						inf[id] = ci
					}
				}
			}
		}
	}
	// JSON bodies, with and without a validator of their own on the @Body annotation
	for _, ptr := range []bool{false, true} {
		for _, shape := range []string{"struct", "[]struct"} {
			for _, bv := range []string{"", "required", "min=1"} {
				if bv == "min=1" && shape != "[]struct" {
					continue
				}
				id := fmt.Sprintf("b%04d", n)
				n++
				t := "Body" + id
				if shape == "[]struct" {
					t = "[]" + t
				} else if ptr {
					t = "*" + t
				}
				m := scen.Method{Name: "Op" + id, Verb: "POST", Route: scen.S("/op"), Ret: "string", Params: []scen.Param{{Name: "p", Type: t, In: "Body", Validate: bv}}}
				ctl := scen.Controller{Name: "C" + id, Pkg: id, Prefix: scen.S("/" + id), Tag: scen.S("T" + id), Methods: []scen.Method{m}}
				decl := "type Body" + id + " struct {\n\tA string `json:\"a\" validate:\"required\"`\n\tN int `json:\"n\" validate:\"gte=0\"`\n}\n"
				cases = append(cases, scen.Case{ID: id, Unit: scen.Unit{Controllers: []scen.Controller{ctl}, Decls: map[string]string{id: decl}},
					Features: map[string]string{"kind": shape, "in": "Body", "ptr": fmt.Sprint(ptr), "validate": bv}, Desc: ctl})
				inf[id] = caseInfo{K: kind{Name: shape}, Loc: "Body", Ptr: ptr, Validate: bv}
			}
		}
	}
	// several parameters at once: every order of four same-typed parameters bound from four different locations
	// (written as one grouped declaration and as separate ones), mixed types, and a context parameter in between -
	// the method must receive each value at its own position
	perm4 := [][]int{}
	var permute func(cur []int, used int)
	permute = func(cur []int, used int) {
		if len(cur) == 4 {
			perm4 = append(perm4, append([]int(nil), cur...))
			return
		}
		for i := 0; i < 4; i++ {
			if used&(1<<i) == 0 {
				permute(append(cur, i), used|1<<i)
			}
		}
	}
	permute(nil, 0)
	base4 := []multiParam{{Name: "pa", Type: "string", Loc: "Path", Val: "va", JSON: `"va"`}, {Name: "qb", Type: "string", Loc: "Query", Val: "vb", JSON: `"vb"`}, {Name: "hc", Type: "string", Loc: "Header", Val: "vc", JSON: `"vc"`}, {Name: "fd", Type: "string", Loc: "FormField", Val: "vd", JSON: `"vd"`}}
	addMulti := func(ps []multiParam, grouped bool, ctxAt int, family string) {
		id := fmt.Sprintf("b%04d", n)
		n++
		route := "/op"
		m := scen.Method{Name: "Op" + id, Verb: "POST", Ret: "string", GroupParams: grouped}
		for i, p := range ps {
			if i == ctxAt {
				m.Params = append(m.Params, scen.Param{Name: "ctx", Type: "context.Context"})
			}
			m.Params = append(m.Params, scen.Param{Name: p.Name, Type: p.Type, In: p.Loc, NewDecl: p.NewDecl})
			if p.Loc == "Path" {
				route += "/{" + p.Name + "}"
			}
		}
		m.Route = scen.S(route)
		ctl := scen.Controller{Name: "C" + id, Pkg: id, Prefix: scen.S("/" + id), Tag: scen.S("T" + id), Methods: []scen.Method{m}}
		var order []string
		for _, p := range ps {
			order = append(order, p.Name)
		}
		cases = append(cases, scen.Case{ID: id, Unit: scen.Unit{Controllers: []scen.Controller{ctl}, Decls: map[string]string{}},
			Features: map[string]string{"kind": family, "in": "several", "order": strings.Join(order, ","), "grouped": fmt.Sprint(grouped), "ptr": "false"}, Desc: ctl})
		inf[id] = caseInfo{Multi: ps, K: kind{Name: family}, Loc: "several", Ctx: ctxAt >= 0}
	}
	for pi, pm := range perm4 {
		if tier != "thorough" && pi%2 == 1 {
			continue
		}
		ps := []multiParam{base4[pm[0]], base4[pm[1]], base4[pm[2]], base4[pm[3]]}
		addMulti(ps, true, -1, "4-strings")
		addMulti(ps, false, pi%5-1, "4-strings")
	}
	ints := []multiParam{{Name: "n1", Type: "int", Loc: "Query", Val: "1", JSON: "1"}, {Name: "n2", Type: "int", Loc: "Query", Val: "2", JSON: "2"}, {Name: "n3", Type: "int", Loc: "Query", Val: "3", JSON: "3"}, {Name: "lim", Type: "string", Loc: "Query", Val: "x", JSON: `"x"`}, {Name: "n4", Type: "int", Loc: "Header", Val: "4", JSON: "4"}}
	addMulti(ints, true, -1, "grouped-ints-then-string")
	addMulti([]multiParam{ints[3], ints[0], ints[1], ints[2]}, true, -1, "string-then-grouped-ints")
	addMulti([]multiParam{ints[0], ints[3], ints[1], ints[4], ints[2]}, false, 2, "alternating-types")
	// "from, to, cursor string, tenant string": a group of three followed by a declaration of the same type
	sep := func(p multiParam) multiParam { p.NewDecl = true; return p }
	addMulti([]multiParam{base4[1], base4[2], base4[3], sep(base4[0])}, true, -1, "three-grouped-then-same-type")
	addMulti([]multiParam{base4[0], sep(base4[1]), base4[2], base4[3]}, true, -1, "one-then-three-grouped-same-type")
	addMulti([]multiParam{base4[1], base4[2], sep(base4[3]), base4[0]}, true, 1, "two-groups-of-two-same-type")
	return cases, inf
}

func instrument(c scen.Case) scen.Unit {
	u := c.Unit
	cs := append([]scen.Controller(nil), u.Controllers...)
	for i := range cs {
		ms := append([]scen.Method(nil), cs[i].Methods...)
		for j := range ms {
			ms[j].Body = rt.CallBody(cs[i].Name+"."+ms[j].Name, ms[j].Params, `"ok", nil`)
		}
		cs[i].Methods = ms
	}
	return scen.Unit{Controllers: cs, Decls: u.Decls, Imports: map[string][]string{cs[0].Pkg: rt.RtImports}}
}

type reqMeta struct {
	Val     value
	Absent  bool
	Below80 bool // a canonical value that fails gte=80
	Decoy   bool // the same wire name is also carried, with another value, in the locations the parameter is NOT declared in
}

func validHeaderValue(s string) bool {
	for _, r := range s {
		if r < 0x20 && r != '\t' || r == 0x7f {
			return false
		}
	}
	return true
}

// goParse says what the declared Go type's strconv parser yields for raw, as argument JSON ("" = does not parse).
func goParse(k string, raw string) string {
	if strings.HasPrefix(k, "[]") {
		var parts []string
		for _, el := range strings.Split(raw, "\x1f") {
			p := goParse(k[2:], el)
			if p == "" {
				return ""
			}
			parts = append(parts, p)
		}
		return "[" + strings.Join(parts, ",") + "]"
	}
	bitsOf := map[string]int{"int": 64, "int8": 8, "int16": 16, "int32": 32, "int64": 64, "uint": 64, "uint8": 8, "uint16": 16, "uint32": 32, "uint64": 64, "enum-int": 64}
	switch {
	case k == "string" || k == "enum-string" || k == "alias-typedef":
		j, _ := json.Marshal(raw)
		return string(j)
	case strings.HasPrefix(k, "uint"):
		v, err := strconv.ParseUint(raw, 10, bitsOf[k])
		if err != nil {
			return ""
		}
		return strconv.FormatUint(v, 10)
	case strings.HasPrefix(k, "int") || k == "enum-int":
		v, err := strconv.ParseInt(raw, 10, bitsOf[k])
		if err != nil {
			return ""
		}
		return strconv.FormatInt(v, 10)
	case k == "bool":
		v, err := strconv.ParseBool(raw)
		if err != nil {
			return ""
		}
		return strconv.FormatBool(v)
	case k == "float64" || k == "float32":
		bits := 64
		if k == "float32" {
			bits = 32
		}
		v, err := strconv.ParseFloat(raw, bits)
		if err != nil || math.IsNaN(v) || math.IsInf(v, 0) {
			return ""
		}
		if bits == 32 {
			j, _ := json.Marshal(float32(v))
			return string(j)
		}
		j, _ := json.Marshal(v)
		return string(j)
	}
	return ""
}

// makeReqsFor returns the request generator of the binding space; it records each request's meaning in metas.
func makeReqsFor(inf map[string]caseInfo, metas map[string]reqMeta) func(scen.Case) []rt.Request {
	var mu sync.Mutex
	return func(c scen.Case) []rt.Request {
		mu.Lock()
		defer mu.Unlock()
		ci := inf[c.ID]
		if ci.Multi != nil {
			// all present, then each one omitted in turn
			var out []rt.Request
			for omit := -1; omit < len(ci.Multi); omit++ {
				rq := rt.Request{ID: fmt.Sprintf("%s#%d", c.ID, omit+1), Verb: "POST", URL: "/" + c.ID + "/op", Headers: map[string]string{}, ContentType: "application/x-www-form-urlencoded"}
				q, form := url.Values{}, url.Values{}
				skip := false
				for i, p := range ci.Multi {
					if i == omit {
						if p.Loc == "Path" {
							skip = true
						}
						continue
					}
					switch p.Loc {
					case "Path":
						rq.URL += "/" + url.PathEscape(p.Val)
					case "Query":
						q.Set(p.Name, p.Val)
					case "Header":
						rq.Headers[p.Name] = p.Val
					case "FormField":
						form.Set(p.Name, p.Val)
					}
				}
				if skip {
					continue
				}
				if len(q) > 0 {
					rq.URL += "?" + q.Encode()
				}
				rq.Body = form.Encode()
				metas[rq.ID] = reqMeta{Absent: omit >= 0, Val: value{Raw: fmt.Sprint(omit)}}
				out = append(out, rq)
			}
			return out
		}
		wire := "p"
		if ci.Alias != "" {
			wire = ci.Alias
		}
		base := "/" + c.ID + "/op"
		var out []rt.Request
		n := 0
		var mkEnc func(v value, absent bool, overEncode bool)
		decoy := ""
		mk := func(v value, absent bool) {
			mkEnc(v, absent, false)
			// a second, non-canonical but valid client encoding of the same value: the first byte percent-encoded even
			// if it need not be (servers must decode any valid percent-encoding)
			if !absent && v.Raw != "" && (ci.Loc == "Path" || ci.Loc == "Query") && v.Class == "exact" {
				mkEnc(v, absent, true)
			}
		}
		mkEnc = func(v value, absent bool, overEncode bool) {
			rq := rt.Request{ID: fmt.Sprintf("%s#%d", c.ID, n), Verb: "GET", URL: base}
			n++
			over := func(escaped string) string {
				if !overEncode {
					return escaped
				}
				if strings.HasPrefix(escaped, "%") {
					return escaped
				}
				return fmt.Sprintf("%%%02X", v.Raw[0]) + escaped[1:]
			}
			switch ci.Loc {
			case "Path":
				if absent || v.Raw == "" {
					return
				}
				rq.URL = base + "/" + over(url.PathEscape(v.Raw))
			case "Query":
				if !absent && strings.HasPrefix(ci.K.Name, "[]") {
					if overEncode {
						return
					}
					var parts []string
					for _, el := range strings.Split(v.Raw, "\x1f") {
						parts = append(parts, url.QueryEscape(wire)+"="+url.QueryEscape(el))
					}
					rq.URL = base + "?" + strings.Join(parts, "&")
				} else if !absent {
					rq.URL = base + "?" + url.QueryEscape(wire) + "=" + over(url.QueryEscape(v.Raw))
				}
			case "Header":
				if !absent {
					if !validHeaderValue(v.Raw) || v.Raw != strings.TrimSpace(v.Raw) || v.Raw == "" {
						return // leading/trailing whitespace and empty values are normalised by HTTP itself, not by the router
					}
					rq.Headers = map[string]string{wire: v.Raw}
				}
			case "FormField":
				rq.Verb = "POST"
				rq.ContentType = "application/x-www-form-urlencoded"
				if !absent {
					rq.Body = url.Values{wire: {v.Raw}}.Encode()
				}
			case "Body":
				rq.Verb = "POST"
				rq.ContentType = "application/json"
				rq.Body = v.Raw
			}
			if decoy != "" {
				// the declared location is the only one that counts: the same name elsewhere must be ignored
				sep := "?"
				if strings.Contains(rq.URL, "?") {
					sep = "&"
				}
				if ci.Loc != "Query" {
					rq.URL += sep + url.QueryEscape(wire) + "=" + url.QueryEscape(decoy)
				}
				if ci.Loc != "Header" {
					if rq.Headers == nil {
						rq.Headers = map[string]string{}
					}
					rq.Headers[wire] = decoy
				}
			}
			m := reqMeta{Val: v, Absent: absent, Decoy: decoy != ""}
			if ci.Validate == "gte=80" && v.Class == "exact" {
				if f, err := strconv.ParseFloat(v.Raw, 64); err == nil && f < 80 {
					m.Below80 = true
				}
			}
			metas[rq.ID] = m
			out = append(out, rq)
		}
		if ci.Loc == "Body" {
			one := `{"a":"x","n":1}`
			wantOne := `{"a":"x","n":1}`
			if ci.K.Name == "[]struct" {
				mk(value{"[" + one + "," + one + "]", "exact", "[" + wantOne + "," + wantOne + "]"}, false)
				if ci.Validate == "min=1" {
					mk(value{"[]", "reject", ""}, false) // the body's own validator demands one element
				} else {
					mk(value{"[]", "exact", "[]"}, false)
				}
				mk(value{`[{"n":1}]`, "reject", ""}, false)
				mk(value{one, "reject", ""}, false)
			} else {
				mk(value{one, "exact", wantOne}, false)
				mk(value{`{"a":"ü✓ \"q\"","n":0}`, "exact", `{"a":"ü✓ \"q\"","n":0}`}, false)
				mk(value{`{"n":1}`, "reject", ""}, false)          // required field missing
				mk(value{`{"a":"x","n":-1}`, "reject", ""}, false) // gte=0 fails
				mk(value{`{"a":5}`, "reject", ""}, false)
				mk(value{`[1,2]`, "reject", ""}, false)
			}
			mk(value{`{"a":`, "reject", ""}, false)
			mk(value{``, "odd", ""}, true)
			// the same bodies once more without a declared length (chunked / streamed request)
			for i, n0 := 0, len(out); i < n0; i++ {
				if out[i].Body == "" {
					continue
				}
				rq := out[i]
				rq.ID = fmt.Sprintf("%s#%d", c.ID, n)
				n++
				rq.UnknownLength = true
				metas[rq.ID] = metas[out[i].ID]
				out = append(out, rq)
			}
			return out
		}
		for _, v := range ci.K.Vals() {
			mk(v, false)
		}
		if ci.Validate == "gte=80" {
			mk(value{"80", "exact", "80"}, false)
			mk(value{"79", "exact", "79"}, false)
		}
		mk(value{}, true)
		// the same requests once more with decoys: the absent request and the first canonical value, while another
		// canonical value travels under the same wire name in every other location
		var exact []value
		for _, v := range ci.K.Vals() {
			if v.Class == "exact" && validHeaderValue(v.Raw) && v.Raw == strings.TrimSpace(v.Raw) && v.Raw != "" {
				exact = append(exact, v)
			}
		}
		if len(exact) >= 2 {
			if ci.Validate == "gte=80" {
				exact = []value{{"81", "exact", "81"}, {"99", "exact", "99"}}
			}
			decoy = exact[1].Raw
			mkEnc(exact[0], false, false)
			decoy = exact[0].Raw
			mkEnc(value{}, true, false)
			decoy = ""
		}
		return out
	}
}

// Space exposes the binding scenarios and their requests (used by C12).
func Space(tier string) ([]scen.Case, func(scen.Case) scen.Unit, func(scen.Case) []rt.Request) {
	cases, inf := buildCases(tier)
	return cases, instrument, makeReqsFor(inf, map[string]reqMeta{})
}

func Main(tier, replay string) {
	run := core.NewRun("C05", tier)
	scratch := scen.MkScratch("c05")
	defer os.RemoveAll(scratch)
	deadline := core.Deadline(tier, 12*time.Minute, 50*time.Minute)
	cases, inf := buildCases(tier)
	if replay != "" {
		_, v := core.LoadReplay(replay)
		id, _ := v.Case.(map[string]any)["id"].(string)
		var sel []scen.Case
		for _, c := range cases {
			if c.ID == id {
				sel = append(sel, c)
			}
		}
		cases = sel
	}
	metas := map[string]reqMeta{}
	reqsFor := makeReqsFor(inf, metas)
	bound, rejected, invoked, notAccepted := 0, 0, 0, 0
	// the binding contract does not depend on the generator switches: the whole space is replayed against routers
	// generated with validateResponsePayload, validateTopLevelOnlyEnum and generateEnumValidator on as well
	flagSets := []rt.Flags{{}, {EnumVal: true, TopEnum: true, RespVal: true}}
	var crs []rt.CaseRun
	flagOf := map[int]rt.Flags{}
	for _, fl := range flagSets {
		part := rt.RunCases(scratch, cases, 40, 6, instrument, reqsFor, nil, fl, deadline)
		for range part {
			flagOf[len(flagOf)] = fl
		}
		crs = append(crs, part...)
	}
	for cri, cr := range crs {
		c := cr.Case
		ci := inf[c.ID]
		if cr.Run == nil {
			run.Cap("deadline reached: scenario " + c.ID + " not run")
			continue
		}
		if cr.Run.Failed() {
			if !cr.Run.Worker.Accepted() {
				notAccepted++
				run.Outcome("scenario not accepted: "+strings.SplitN(cr.Run.Worker.FailureSummary(), ":", 2)[0], 1)
				continue
			}
			run.Report(core.Violation{Oracle: "accepted-scenario-builds-and-registers", Features: c.Features, What: "the scenario was accepted but could not be served: " + firstLines(cr.Run.BuildErr, 3) + fmt.Sprint(cr.Run.RegErr), Case: c})
			continue
		}
		run.AddStates(1)
		for _, rq := range cr.Reqs {
			m := metas[rq.ID]
			for _, e := range rt.Engines {
				resp := cr.Run.Results[e][rq.ID]
				run.AddTransitions(1)
				run.AddValidated(1)
				names, args, _ := resp.Calls()
				class := m.Val.Class
				if m.Absent {
					class = "absent"
				}
				if flagOf[cri].TopEnum && class == "exact" && strings.HasPrefix(ci.K.Name, "enum-") && !map[string]bool{"a": true, "b": true, ">=": true, "x&y's": true, "1": true, "2": true}[m.Val.Raw] {
					class = "odd" // validateTopLevelOnlyEnum refuses values outside the declared constants
				}
				feat := map[string]string{"engine": e, "value-class": class}
				if m.Decoy {
					feat["decoy-in-other-locations"] = "true"
				}
				if fl := flagOf[cri]; fl != (rt.Flags{}) {
					feat["flags"] = fmt.Sprintf("%+v", fl)
				}
				for k, v := range c.Features {
					feat[k] = v
				}
				cs := map[string]any{"id": c.ID, "scenario": c.Desc, "request": rq, "engine": e, "raw_value": m.Val.Raw}
				rep := func(oracle, what string, extra ...string) {
					f := map[string]string{}
					for k, v := range feat {
						f[k] = v
					}
					for i := 0; i+1 < len(extra); i += 2 {
						f[extra[i]] = extra[i+1]
					}
					run.Report(core.Violation{Oracle: oracle, Features: f, What: fmt.Sprintf("%s %s %s (%s %s in %s, raw value %q): %s — status %d, events %v", e, rq.Verb, rq.URL, ci.K.Name, map[bool]string{true: "pointer", false: "value"}[ci.Ptr], ci.Loc, m.Val.Raw, what, resp.Status, resp.Events), Case: cs})
				}
				if resp.Panic != "" {
					rep("request-does-not-panic", "panic "+resp.Panic)
					continue
				}
				if ci.Multi != nil {
					var want []string
					for _, p := range ci.Multi {
						want = append(want, p.JSON)
					}
					wantArgs := "[" + strings.Join(want, ",") + "]"
					switch {
					case m.Absent:
						rejected++
						if len(names) != 0 || resp.Status != 422 {
							rep("invalid-request-is-422-without-invocation", "omitting one non-pointer parameter of several must be answered 422 without invoking the method")
						}
					case len(names) != 1:
						rep("canonical-in-range-value-must-bind", "a request carrying every parameter was not delivered to the method")
					case !sameJSON(args[0], wantArgs):
						rep("arguments-arrive-in-signature-order", fmt.Sprintf("the method received %s, the signature order of the sent values is %s", args[0], wantArgs))
					default:
						bound++
						invoked++
					}
					continue
				}
				called := len(names) == 1
				got := ""
				if called && len(args[0]) >= 2 {
					got = strings.TrimSuffix(strings.TrimPrefix(args[0], "["), "]")
				}
				mustReject := func(why string) {
					rejected++
					if called || resp.Status != 422 {
						rep("invalid-request-is-422-without-invocation", why+" must be answered 422 without invoking the method")
					}
				}
				switch {
				case m.Absent && ci.Loc == "Body" && ci.Ptr:
					// an absent optional JSON body: not judged beyond "no silent garbage"
				case m.Absent && !ci.Ptr:
					mustReject("omitting a non-pointer parameter")
				case m.Absent && ci.Ptr && ci.Validate != "":
					// an absent optional parameter with a validator that does not say omitempty: whether nil passes "gte=80" is the validator's business, not judged
				case m.Absent && ci.Ptr:
					invoked++
					if !called || got != "null" {
						rep("absent-pointer-parameter-binds-nil", "an absent pointer parameter must reach the method as nil")
					}
				case m.Below80:
					mustReject("a value failing the declared validator gte=80")
				case class == "reject":
					mustReject("a value that does not convert to the declared type")
				case class == "exact":
					bound++
					invoked++
					if !called {
						rep("canonical-in-range-value-must-bind", "a canonical in-range value was not delivered to the method", "raw", shortRaw(m.Val.Raw))
					} else if !sameJSON(got, m.Val.JSON) {
						rep("bound-value-equals-sent-value", fmt.Sprintf("the method received %s, the request carried %s", got, m.Val.JSON), "raw", shortRaw(m.Val.Raw))
					} else if ci.Secured && ci.Ctx && resp.CtxState() != "approved" {
						rep("context-parameter-receives-request-context", "the context parameter does not carry the value the authorization callback put into the request context (state "+resp.CtxState()+")")
					}
				case class == "odd":
					// no silent wrong value: either refused without invocation, or exactly what the Go parser yields for that text
					if f, err := strconv.ParseFloat(m.Val.Raw, 64); called && err == nil && (math.IsNaN(f) || math.IsInf(f, 0)) && strings.HasPrefix(ci.K.Name, "float") {
						// NaN / Inf are what Go's parser yields for this text; they cannot be rendered as JSON by the recorder
					} else if called {
						want := goParse(ci.K.Name, m.Val.Raw)
						if want == "" || !sameJSON(got, want) {
							rep("no-silently-wrong-value", fmt.Sprintf("the method received %s for raw text %q (Go's parser for the declared type yields %q)", got, m.Val.Raw, want), "raw", shortRaw(m.Val.Raw))
						}
					} else if resp.Status >= 200 && resp.Status < 300 {
						rep("no-silently-wrong-value", "success status without invoking the method")
					}
				}
			}
		}
	}
	run.Set("scenarios", len(cases))
	run.Set("scenarios_not_accepted", notAccepted)
	run.Set("executions_canonical_values", bound)
	run.Set("executions_expected_422", rejected)
	run.Set("executions_expected_invocation", invoked)
	run.Outcome("canonical", int64(bound))
	run.Outcome("expected-422", int64(rejected))
	run.Sample(map[string]any{"scenario": cases[len(cases)/2].Desc, "values": kinds()[1].Vals()[:6]})
	run.Bound = fmt.Sprintf("%d binding scenarios: 17 parameter kinds x {path, query, header, form}, 4 slice kinds in query (repeated keys) x pointer x wire alias x validator (numeric: gte=80), JSON bodies (struct, []struct, pointer; with and without a validator on @Body), several-parameter signatures (orders of four same-typed parameters from four locations, grouped and separate declarations, context in between; every parameter omitted in turn); per parameter the kind's value alphabet (boundary values that must bind exactly, values that must be refused, odd syntaxes) plus the absent request, and the absent request and one canonical value again with a decoy value under the same wire name in every other location; x 5 engines x {all generator switches off, validateResponsePayload + validateTopLevelOnlyEnum + generateEnumValidator on}", len(cases))
	run.Rule = "state = (scenario, request value, engine); transition = one HTTP request served in-process by a compiled generated router with an echoing controller; validated = executions whose recorded arguments and status were compared with the binding reference model"
	run.Assumptions = []string{"odd syntaxes ('+5', ' 5', '0x10', full-width digits, NaN, empty strings, values containing '/') are only required not to bind a silently wrong value", "value alphabets are boundary/representative, not all representable values"}
	os.RemoveAll(scratch)
	run.Finish()
}

func shortRaw(s string) string {
	if len(s) > 24 {
		return s[:24] + "…"
	}
	return s
}

func sameJSON(a, b string) bool {
	if a == b {
		return true
	}
	var x, y any
	da := json.NewDecoder(strings.NewReader(a))
	da.UseNumber()
	db := json.NewDecoder(strings.NewReader(b))
	db.UseNumber()
	if da.Decode(&x) != nil || db.Decode(&y) != nil {
		return false
	}
	ja, _ := json.Marshal(x)
	jb, _ := json.Marshal(y)
	if string(ja) == string(jb) {
		return true
	}
	// numbers: compare as float when both parse
	fa, ea := strconv.ParseFloat(a, 64)
	fb, eb := strconv.ParseFloat(b, 64)
	return ea == nil && eb == nil && fa == fb && len(a) < 15 && len(b) < 15
}

func firstLines(s string, n int) string {
	l := strings.Split(strings.TrimSpace(s), "\n")
	if len(l) > n {
		l = l[:n]
	}
	return strings.Join(l, " | ")
}
