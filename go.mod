module verif

go 1.24.7

require github.com/gopher-fleece/gleece/v2 v2.0.0

require (
	github.com/deckarep/golang-set/v2 v2.8.0 // indirect
	github.com/gopher-fleece/runtime v1.2.1 // indirect
	github.com/titanous/json5 v1.0.0 // indirect
	golang.org/x/mod v0.30.0 // indirect
	golang.org/x/sync v0.18.0 // indirect
	golang.org/x/tools v0.39.0 // indirect
)

replace github.com/gopher-fleece/gleece/v2 => /repo
