// Package c08 decides C08 (whenever a spec is emitted it is a valid, closed OpenAPI document) by running an
// independent structural validator over every document the scenario families produce (signatures, type
// graphs, route layouts, security shapes; both versions), whenever the real pipeline would have written it.
package c08

import (
	"fmt"
	"os"
	"regexp"
	"strings"

	"verif/internal/c01"
	"verif/internal/core"
	"verif/internal/fam"
	"verif/internal/scen"
	"verif/internal/spec"
)

var idRe = regexp.MustCompile(`[gtsvr][0-9]{4}`)

func Main(tier, replay string) {
	run := core.NewRun("C08", tier)
	scratch := scen.MkScratch("c08")
	defer os.RemoveAll(scratch)
	sig, _ := fam.Signature(tier)
	typ, _, _ := fam.Types(tier)
	lay := fam.Family{Name: "layout", Cases: c01.Cases(tier), BaseCfg: fam.DefaultCfg, PackSize: 100}
	sec := fam.Security()
	gen := fam.Generics()
	docsChecked, findings := 0, 0
	var replayID string
	if replay != "" {
		_, v := core.LoadReplay(replay)
		replayID, _ = v.Case.(map[string]any)["id"].(string)
	}
	for _, f := range []fam.Family{sig, typ, lay, sec, gen} {
		byID := map[string]scen.Case{}
		var packed, singles []scen.Case
		for i, c := range f.Cases {
			byID[c.ID] = c
			if replayID != "" {
				if c.ID == replayID {
					singles = append(singles, c)
				}
				continue
			}
			if c.Features["mutual"] == "true" || c.Features["prefix"] == "§" || c.Features["route"] == "§" {
				if tier == "thorough" {
					singles = append(singles, c)
				}
				continue // known hard rejections: no document is produced
			}
			if f.Name == "generics" {
				singles = append(singles, c) // many of these are rejected with a hard error: run alone
				continue
			}
			packed = append(packed, c)
			if tier == "thorough" || i%15 == 0 {
				singles = append(singles, c)
			}
		}
		cfg := f.BaseCfg()
		seenProject := map[string]bool{}
		rn := fam.Run(f, scratch, nil, packed, singles, func(v fam.View) {
			// one validation per project run, not per scenario
			if seenProject[v.Outcome.Dir] {
				return
			}
			seenProject[v.Outcome.Dir] = true
			res := v.Outcome.Res
			if res.ErrorDiags > 0 || v.Hard != "" {
				run.Outcome(f.Name+": no document (project rejected)", 1)
				return // the CLI writes nothing for this project
			}
			for ver, d := range v.Docs {
				docsChecked++
				run.AddValidated(1)
				fs := spec.Validate(d, ver, cfg)
				run.Outcome(fmt.Sprintf("%s: %s document, findings>0=%v", f.Name, ver, len(fs) > 0), 1)
				for _, fd := range fs {
					findings++
					c := v.Case
					if id := idRe.FindString(fd.Where + " " + fd.What); id != "" {
						if cc, ok := byID[id]; ok {
							c = cc
						}
					}
					feat := map[string]string{"version": ver, "rule": fd.Rule, "single": fmt.Sprint(v.Single)}
					for k, val := range c.Features {
						feat[k] = val
					}
					for k, val := range fd.Attrs {
						feat[k] = val
					}
					run.Report(core.Violation{Oracle: fd.Rule, Features: feat, What: ver + " " + strings.ReplaceAll(fd.Where, c.ID, "§") + ": " + fd.What, Case: c})
				}
			}
		})
		run.AddStates(int64(len(packed)))
		run.AddTransitions(rn.Projects.Load())
	}
	run.Set("documents_validated", docsChecked)
	run.Set("findings_total", findings)
	run.Sample(map[string]any{"family": "signature", "case": sig.Cases[0]})
	run.Sample(map[string]any{"family": "types", "case": typ.Cases[0]})
	run.Bound = fmt.Sprintf("every document (3.0.0 and 3.1.0) emitted for the signature (%d), type (%d), layout (%d), security (%d) and generic-instantiation (%d) scenario families, packed and alone", len(sig.Cases), len(typ.Cases), len(lay.Cases), len(sec.Cases), len(gen.Cases))
	run.Rule = "state = one generated project; transition = one run of the real pipeline + spec generators; validated = documents checked by the independent structural validator ($ref closure, path-template/path-parameter bijection, unique parameters, response descriptions, enum value types, JSON-schema types, info/servers/securitySchemes as configured)"
	run.Assumptions = []string{"documents of projects with error diagnostics are not judged (the command writes nothing for them; C10 checks that)"}
	os.RemoveAll(scratch)
	run.Finish()
}
