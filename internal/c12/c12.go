// Package c12 decides C12 (the five generated routers are behaviourally interchangeable) by replaying the request
// spaces of C03 (all authorization verdict vectors), C05 (parameter value alphabets) and an operation-outcome
// family (success shapes, plain / custom errors, custom status and headers) against all five compiled routers and
// comparing, for every request, the invoked method and arguments, the authorization sequence, the status and the
// JSON-equivalent body across all ten engine pairs.
package c12

import (
	"encoding/json"
	"fmt"
	"os"
	"strings"
	"time"

	"verif/internal/c03"
	"verif/internal/c05"
	"verif/internal/core"
	"verif/internal/rt"
	"verif/internal/scen"
)

type outcome struct {
	Name, Ret, Err, Body string
	Decl                 string
}

func outcomeCases(flagged bool) ([]scen.Case, func(scen.Case) scen.Unit, func(scen.Case) []rt.Request) {
	outs := []outcome{
		{Name: "value-string", Ret: "string", Body: "\trec.Call(\"§\", \"none\")\n\treturn \"ok ü✓\", nil\n"},
		{Name: "value-struct", Ret: "Res§", Body: "\trec.Call(\"§\", \"none\")\n\treturn Res§{A: \"x\", N: 3, L: []string{\"p\", \"q\"}}, nil\n"},
		{Name: "value-nil-pointer", Ret: "*Res§", Body: "\trec.Call(\"§\", \"none\")\n\treturn nil, nil\n"},
		{Name: "value-empty-slice", Ret: "[]Res§", Body: "\trec.Call(\"§\", \"none\")\n\treturn []Res§{}, nil\n"},
		{Name: "value-nil-slice", Ret: "[]Res§", Body: "\trec.Call(\"§\", \"none\")\n\treturn nil, nil\n"},
		{Name: "value-map", Ret: "map[string]int", Body: "\trec.Call(\"§\", \"none\")\n\treturn map[string]int{\"a\": 1, \"b\": 2}, nil\n"},
		{Name: "no-content", Body: "\trec.Call(\"§\", \"none\")\n\treturn nil\n"},
		{Name: "plain-error", Ret: "string", Body: "\trec.Call(\"§\", \"none\")\n\treturn \"\", fmt.Errorf(\"boom\")\n"},
		{Name: "plain-error-no-value", Body: "\trec.Call(\"§\", \"none\")\n\treturn fmt.Errorf(\"boom\")\n"},
		{Name: "rfc7807-error", Ret: "string", Body: "\trec.Call(\"§\", \"none\")\n\treturn \"\", &runtime.Rfc7807Error{Type: \"t\", Title: \"ti\", Detail: \"d\", Status: 409, Instance: \"/i\"}\n"},
		{Name: "custom-error-value", Ret: "string", Err: "CErr§", Body: "\trec.Call(\"§\", \"none\")\n\treturn \"\", CErr§{error: fmt.Errorf(\"custom\"), Code: 7}\n"},
		{Name: "custom-error-value-empty", Ret: "string", Err: "CErr§", Body: "\trec.Call(\"§\", \"none\")\n\treturn \"fine\", CErr§{}\n"},
		{Name: "custom-error-pointer", Ret: "string", Err: "*CErr§", Body: "\trec.Call(\"§\", \"none\")\n\treturn \"\", &CErr§{error: fmt.Errorf(\"custom\"), Code: 8}\n"},
		{Name: "custom-error-pointer-nil", Ret: "string", Err: "*CErr§", Body: "\trec.Call(\"§\", \"none\")\n\treturn \"fine\", nil\n"},
		{Name: "set-status-success", Ret: "string", Body: "\trec.Call(\"§\", \"none\")\n\tc.SetStatus(runtime.StatusAccepted)\n\treturn \"ok\", nil\n"},
		{Name: "set-status-error", Ret: "string", Body: "\trec.Call(\"§\", \"none\")\n\tc.SetStatus(runtime.StatusTeapot)\n\treturn \"\", fmt.Errorf(\"teapot\")\n"},
		{Name: "set-header", Ret: "string", Body: "\trec.Call(\"§\", \"none\")\n\tc.SetHeader(\"X-Custom\", \"v\")\n\treturn \"ok\", nil\n"},
		// payloads that response validation (validateResponsePayload) would refuse
		{Name: "value-struct-fails-own-validator", Ret: "VRes§", Body: "\trec.Call(\"§\", \"none\")\n\treturn VRes§{}, nil\n"},
		{Name: "value-struct-pointer-fails-own-validator", Ret: "*VRes§", Body: "\trec.Call(\"§\", \"none\")\n\treturn &VRes§{N: 200}, nil\n"},
		{Name: "value-slice-element-fails-own-validator", Ret: "[]VRes§", Body: "\trec.Call(\"§\", \"none\")\n\treturn []VRes§{{A: \"ok\", N: 1}, {}}, nil\n"},
		{Name: "value-struct-passes-own-validator", Ret: "VRes§", Body: "\trec.Call(\"§\", \"none\")\n\treturn VRes§{A: \"ok\", N: 5}, nil\n"},
	}
	var cases []scen.Case
	for i, o := range outs {
		for _, resp := range []string{"", "201 Created"} {
			id := fmt.Sprintf("o%04d", len(cases))
			sub := func(s string) string { return strings.ReplaceAll(s, "§", id) }
			// the route is written plainly, with a trailing slash, or with a doubled slash (the joined path then reads
			// /<id>/op, /<id>/op/ and /<id>/op): every engine must serve the documented path
			routeForm := []string{"/op", "/op/", "//op"}[len(cases)%3]
			m := scen.Method{Name: "Op" + id, Verb: "GET", Route: scen.S(routeForm), Ret: sub(o.Ret), Err: sub(o.Err), Response: resp, ErrResps: []string{"409 conflict", "500 boom"},
				Body: strings.ReplaceAll(o.Body, "\"§\"", "\"C"+id+".Op"+id+"\"")}
			m.Body = sub(m.Body)
			ctl := scen.Controller{Name: "C" + id, Pkg: id, Prefix: scen.S("/" + id), Tag: scen.S("T" + id), Methods: []scen.Method{m}}
			decl := sub("type Res§ struct {\n\tA string `json:\"a\"`\n\tN int `json:\"n\"`\n\tL []string `json:\"l\"`\n}\n\ntype CErr§ struct {\n\terror\n\tCode int `json:\"code\"`\n}\n\ntype VRes§ struct {\n\tA string `json:\"a\" validate:\"required\"`\n\tN int `json:\"n\" validate:\"lte=100\"`\n}\n")
			cases = append(cases, scen.Case{ID: id, Unit: scen.Unit{Controllers: []scen.Controller{ctl}, Decls: map[string]string{id: decl},
				Imports: map[string][]string{id: append([]string{"github.com/gopher-fleece/runtime"}, rt.RtImports...)}},
				Features: map[string]string{"family": "outcome", "outcome": o.Name, "response": resp, "route-form": routeForm}, Desc: map[string]any{"outcome": outs[i].Name, "controller": ctl}})
		}
	}
	if flagged {
		// generateEnumValidator registers "<snake-case enum name>_enum" for struct tags; only meaningful with the flag on
		id := fmt.Sprintf("o%04d", len(cases))
		m := scen.Method{Name: "Op" + id, Verb: "POST", Route: scen.S("/op"), Ret: "string", Params: []scen.Param{{Name: "b", Type: "In" + id, In: "Body"}},
			Body: "\trec.Call(\"C" + id + ".Op" + id + "\", \"none\", b)\n\treturn \"ok\", nil\n"}
		ctl := scen.Controller{Name: "C" + id, Pkg: id, Prefix: scen.S("/" + id), Tag: scen.S("T" + id), Methods: []scen.Method{m}}
		decl := "type Colour string\n\nconst (\n\tColourRed Colour = \"red\"\n\tColourBlue Colour = \"blue\"\n\tColourGte Colour = \">=\"\n\tColourAmp Colour = \"x&y's\"\n)\n\ntype In" + id + " struct {\n\tC Colour `json:\"c\" validate:\"required,colour_enum\"`\n}\n"
		cases = append(cases, scen.Case{ID: id, Unit: scen.Unit{Controllers: []scen.Controller{ctl}, Decls: map[string]string{id: decl},
			Imports: map[string][]string{id: rt.RtImports}},
			Features: map[string]string{"family": "outcome", "outcome": "body-field-with-generated-enum-validator"}, Desc: map[string]any{"outcome": "body-field-with-generated-enum-validator", "controller": ctl, "decls": decl}})
	}
	instrument := func(c scen.Case) scen.Unit { return c.Unit }
	reqsFor := func(c scen.Case) []rt.Request {
		if c.Features["outcome"] == "body-field-with-generated-enum-validator" {
			var out []rt.Request
			for i, b := range []string{`{"c":"red"}`, `{"c":"blue"}`, `{"c":">="}`, `{"c":"x&y's"}`, `{"c":"&gt;="}`, `{"c":"green"}`, `{"c":""}`, `{}`, `{"c":"Red"}`} {
				out = append(out, rt.Request{ID: fmt.Sprintf("%s#%d", c.ID, i), Verb: "POST", URL: "/" + c.ID + "/op", Body: b, ContentType: "application/json"})
			}
			return out
		}
		url := "/" + c.ID + "/op"
		if c.Features["route-form"] == "/op/" {
			url += "/"
		}
		return []rt.Request{{ID: c.ID + "#0", Verb: "GET", URL: url}}
	}
	return cases, instrument, reqsFor
}

func normBody(b string) string {
	t := strings.TrimSpace(b)
	var v any
	if json.Unmarshal([]byte(t), &v) == nil {
		out, _ := json.Marshal(v)
		return string(out)
	}
	return t
}

func Main(tier, replay string) {
	run := core.NewRun("C12", tier)
	scratch := scen.MkScratch("c12")
	defer os.RemoveAll(scratch)
	deadline := core.Deadline(tier, 12*time.Minute, 50*time.Minute)
	type space struct {
		name       string
		cases      []scen.Case
		instrument func(scen.Case) scen.Unit
		reqsFor    func(scen.Case) []rt.Request
		pack       int
		flags      rt.Flags
	}
	oc, oi, or := outcomeCases(false)
	sc, si, sr := c03.Space()
	bc, bi, br := c05.Space(tier)
	allOn := rt.Flags{EnumVal: true, TopEnum: true, RespVal: true}
	fc, fi, fr := outcomeCases(true)
	spaces := []space{{"outcomes", oc, oi, or, 20, rt.Flags{}}, {"security", sc, si, sr, 8, rt.Flags{}}, {"binding", bc, bi, br, 40, rt.Flags{}},
		// the same request spaces against routers generated with validateResponsePayload and both experimental enum switches on
		{"outcomes/flags-on", fc, fi, fr, 20, allOn}, {"binding/flags-on", bc, bi, br, 40, allOn}}
	if tier == "thorough" {
		for i := 1; i < 7; i++ {
			f := rt.Flags{EnumVal: i&1 != 0, TopEnum: i&2 != 0, RespVal: i&4 != 0}
			oCases, oInst, oReqs := oc, oi, or // the generated-enum-validator body only exists when that switch is on
			if f.EnumVal {
				oCases, oInst, oReqs = fc, fi, fr
			}
			spaces = append(spaces, space{fmt.Sprintf("outcomes/flags-%d", i), oCases, oInst, oReqs, 20, f}, space{fmt.Sprintf("binding/flags-%d", i), bc, bi, br, 40, f})
		}
	}
	var replayID string
	if replay != "" {
		_, v := core.LoadReplay(replay)
		replayID, _ = v.Case.(map[string]any)["id"].(string)
	}
	compared, agree := 0, 0
	for _, sp := range spaces {
		cases := sp.cases
		if replayID != "" {
			cases = nil
			for _, c := range sp.cases {
				if c.ID == replayID {
					cases = append(cases, c)
				}
			}
			if len(cases) == 0 {
				continue
			}
		}
		crs := rt.RunCases(scratch, cases, sp.pack, 6, sp.instrument, sp.reqsFor, nil, sp.flags, deadline)
		for _, cr := range crs {
			c := cr.Case
			if cr.Run == nil {
				run.Cap("deadline reached: scenario " + c.ID + " not run")
				continue
			}
			if cr.Run.Failed() {
				if cr.Run.Worker.Accepted() {
					run.Report(core.Violation{Oracle: "accepted-scenario-builds-and-registers-on-every-engine", Features: c.Features, What: "build/registration failed: " + firstLines(cr.Run.BuildErr, 3) + fmt.Sprint(cr.Run.RegErr), Case: c})
				} else {
					run.Outcome(sp.name+": scenario not accepted", 1)
				}
				continue
			}
			run.AddStates(1)
			for _, rq := range cr.Reqs {
				ref := cr.Run.Results["gin"][rq.ID]
				refNames, refArgs, refAuth := ref.Calls()
				same := true
				for _, e := range rt.Engines[1:] {
					resp := cr.Run.Results[e][rq.ID]
					run.AddTransitions(1)
					compared++
					names, args, auths := resp.Calls()
					var diffs []string
					if strings.Join(names, ",") != strings.Join(refNames, ",") {
						diffs = append(diffs, fmt.Sprintf("invoked %v vs %v", refNames, names))
					} else if strings.Join(args, ";") != strings.Join(refArgs, ";") {
						diffs = append(diffs, fmt.Sprintf("arguments %v vs %v", refArgs, args))
					}
					if strings.Join(auths, ";") != strings.Join(refAuth, ";") {
						diffs = append(diffs, fmt.Sprintf("authorization checks %v vs %v", refAuth, auths))
					}
					if resp.Status != ref.Status {
						diffs = append(diffs, fmt.Sprintf("status %d vs %d", ref.Status, resp.Status))
					} else if normBody(resp.Body) != normBody(ref.Body) {
						diffs = append(diffs, fmt.Sprintf("body %.100q vs %.100q", ref.Body, resp.Body))
					}
					if resp.Panic != "" || ref.Panic != "" {
						diffs = append(diffs, "panic "+ref.Panic+" / "+resp.Panic)
					}
					if len(diffs) > 0 {
						same = false
						aspect := strings.Fields(diffs[0])[0]
						feat := map[string]string{"space": sp.name, "flags": fmt.Sprintf("%+v", sp.flags), "pair": "gin/" + e, "aspect": aspect}
						for k, v := range c.Features {
							feat[k] = v
						}
						if ref.Status == 404 || resp.Status == 404 {
							feat["one-side-404"] = "true"
						}
						switch {
						case strings.Contains(strings.ToUpper(rq.URL), "%2F"):
							feat["request-shape"] = "encoded-slash-in-path-parameter"
						case c.Features["in"] == "Path" && c.Features["alias"] == "x-alias":
							feat["request-shape"] = "hyphenated-path-parameter-name"
						}
						run.Report(core.Violation{Oracle: "engines-agree", Features: feat, What: fmt.Sprintf("%s %s (verdicts %v): gin and %s differ — %s", rq.Verb, rq.URL, rq.Verdicts, e, strings.Join(diffs, "; ")),
							Case: map[string]any{"id": c.ID, "scenario": c.Desc, "request": rq}})
					}
				}
				run.AddValidated(1)
				if same {
					agree++
				}
				run.Outcome(fmt.Sprintf("%s: status %d", sp.name, ref.Status), 1)
			}
		}
	}
	run.Set("engine_pair_comparisons", compared)
	run.Set("requests_on_which_all_five_agree", agree)
	run.Sample(map[string]any{"space": "outcomes", "scenario": oc[0].Desc})
	run.Sample(map[string]any{"space": "security", "request": "GET /<id>/q?n=abc", "verdicts": []int{2, 1}})
	run.Bound = fmt.Sprintf("operation-outcome family (%d scenarios: success shapes, payloads failing their own validators, plain/RFC-7807/custom errors by value and pointer, SetStatus, SetHeader, with and without @Response), the C03 security space (all verdict vectors) and the C05 binding space (value alphabets); the outcome (plus a generated-enum-validator body) and binding spaces again with validateResponsePayload, validateTopLevelOnlyEnum and generateEnumValidator on (thorough: every combination of the three); every request against all five engines, compared pairwise through gin (equality is transitive)", len(oc))
	run.Rule = "state = (scenario, request); transition = one HTTP request served in-process by one compiled generated router; validated = requests whose five responses (invoked method, arguments, authorization sequence, status, JSON-equivalent body) were compared"
	run.Assumptions = []string{"header casing/order, Content-Type parameters and body whitespace are not compared", "engines run in strict configuration; requests are delivered in-process"}
	os.RemoveAll(scratch)
	run.Finish()
}

func firstLines(s string, n int) string {
	l := strings.Split(strings.TrimSpace(s), "\n")
	if len(l) > n {
		l = l[:n]
	}
	return strings.Join(l, " | ")
}
