// Package fam holds the scenario families shared by the spec-level checks (C06, C07, C08, C11 ...) and the
// generic "run a family, hand every scenario its projected result" driver.
package fam

import (
	"fmt"
	"strings"

	"verif/internal/scen"
	"verif/internal/spec"
)

// Family is a named list of scenarios with the configuration they run under.
type Family struct {
	Name     string
	Cases    []scen.Case
	BaseCfg  func() map[string]any
	PackSize int
}

// View is what a check gets for one scenario of one project run.
type View struct {
	Case     scen.Case
	Outcome  scen.Outcome
	Single   bool
	Hard     string // non-empty: the project failed hard (error return, panic, crash) — with reason
	SpecErr  map[string]string
	Docs     map[string]spec.Doc
	Diags    []scen.Diag
	Accepted bool // no hard failure, no error diagnostics for this scenario, both specs generated
}

// Ops returns the operations of the given version that belong to the scenario (by namespace literal).
func (v View) Ops(ver string) []spec.Op {
	var out []spec.Op
	d := v.Docs[ver]
	if d == nil {
		return nil
	}
	for _, op := range d.Ops() {
		if strings.Contains(op.Path, v.Case.ID) {
			out = append(out, op)
		}
	}
	return out
}

// Op returns the operation with the given operationId.
func (v View) Op(ver, id string) *spec.Op {
	for _, op := range v.Ops(ver) {
		if op.OperationID() == id {
			o := op
			return &o
		}
	}
	return nil
}

// Schemas returns the component schemas of the given version whose name carries the scenario's namespace.
func (v View) Schemas(ver string) map[string]any {
	out := map[string]any{}
	d := v.Docs[ver]
	if d == nil {
		return out
	}
	for name, s := range d.Schemas() {
		if strings.Contains(name, v.Case.ID) {
			out[name] = s
		}
	}
	return out
}

// MakeViews projects one project outcome onto its scenarios.
func MakeViews(o scen.Outcome, single bool) []View {
	res := o.Res
	hard := ""
	if res.Crashed != "" || res.Panic != "" || res.ConfigErr != "" || res.PipelineErr != "" || res.GraphErr != "" || res.ValidateErr != "" || res.InterErr != "" {
		hard = res.FailureSummary()
	}
	docs := map[string]spec.Doc{}
	specErr := map[string]string{}
	for ver, art := range res.Specs {
		if art.Err != "" || art.Panic != "" {
			specErr[ver] = firstLine(art.Err + art.Panic)
			continue
		}
		if d, err := spec.Parse(art.Content); err == nil {
			docs[ver] = d
		} else {
			specErr[ver] = "not JSON: " + err.Error()
		}
	}
	var out []View
	for _, c := range o.Cases {
		diags := scen.DiagsFor(res, c)
		v := View{Case: c, Outcome: o, Single: single, Hard: hard, SpecErr: specErr, Docs: docs, Diags: diags}
		v.Accepted = hard == "" && !scen.HasErrorDiag(diags) && len(specErr) == 0 && len(docs) == len(res.Specs) && len(docs) > 0
		out = append(out, v)
	}
	return out
}

// Reason says why a view is not accepted.
func (v View) Reason() string {
	switch {
	case v.Hard != "":
		return v.Hard
	case scen.HasErrorDiag(v.Diags):
		var codes []string
		for _, d := range v.Diags {
			if d.Severity == 1 {
				codes = append(codes, d.Code)
			}
		}
		return "diagnostics: " + strings.Join(codes, ",")
	case len(v.SpecErr) > 0:
		for ver, e := range v.SpecErr {
			return "spec " + ver + ": " + e
		}
	}
	return ""
}

func firstLine(s string) string {
	if i := strings.IndexByte(s, '\n'); i >= 0 {
		s = s[:i]
	}
	if len(s) > 300 {
		s = s[:300]
	}
	return s
}

// Run executes the family packed (and/or alone) and calls handle for every scenario view.
func Run(f Family, scratch string, routes []scen.RoutesJob, packed, singles []scen.Case, handle func(View)) *scen.Runner {
	return RunOpt(f, scratch, routes, packed, singles, false, handle)
}

// RunOpt is Run with the validate-only switch (no intermediate metadata, no documents).
func RunOpt(f Family, scratch string, routes []scen.RoutesJob, packed, singles []scen.Case, validateOnly bool, handle func(View)) *scen.Runner {
	rn := &scen.Runner{Scratch: scratch, Specs: []string{"3.0.0", "3.1.0"}, Routes: routes, PackSize: f.PackSize, BaseCfg: f.BaseCfg, ValidateOnly: validateOnly}
	if validateOnly {
		rn.Specs = nil
	}
	rn.RunPacked(packed, func(o scen.Outcome) {
		for _, v := range MakeViews(o, false) {
			handle(v)
		}
	})
	rn.RunSingles(singles, func(o scen.Outcome) {
		for _, v := range MakeViews(o, true) {
			handle(v)
		}
	})
	return rn
}

// Feat copies the scenario's features and adds extras.
func (v View) Feat(extra ...string) map[string]string {
	f := map[string]string{"single": fmt.Sprint(v.Single)}
	for k, val := range v.Case.Features {
		f[k] = val
	}
	for i := 0; i+1 < len(extra); i += 2 {
		f[extra[i]] = extra[i+1]
	}
	return f
}

func DefaultCfg() map[string]any { return scen.BaseConfig("gin", "3.0.0", nil) }
