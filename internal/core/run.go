// Package core holds the bookkeeping shared by every check: counters, evidence, known findings,
// violation reporting with replay artefacts, and the exit protocol (0 held / 1 violation / 2 harness error).
package core

import (
	"crypto/sha256"
	"encoding/hex"
	"encoding/json"
	"fmt"
	"os"
	"path/filepath"
	"sort"
	"strconv"
	"strings"
	"sync"
	"time"
)

// Root is the /verif directory (overridable for background snapshot runs).
func Root() string {
	if r := os.Getenv("VERIF_ROOT"); r != "" {
		return r
	}
	return "/verif"
}

// Repo is the repository under verification.
func Repo() string {
	if r := os.Getenv("VERIF_REPO"); r != "" {
		return r
	}
	return "/repo"
}

// Violation is one oracle failure on one explored case.
type Violation struct {
	Oracle   string            `json:"oracle"`
	Features map[string]string `json:"features"`
	What     string            `json:"what"`
	Case     any               `json:"case"`
	Expected any               `json:"expected,omitempty"`
	Observed any               `json:"observed,omitempty"`
}

// KnownFinding is an entry of /verif/known_findings.json. It is matched on the sub-oracle AND on the
// feature predicate (every key of Where must be present with an equal value in the violation's features;
// a value starting with "~" is a substring match).
type KnownFinding struct {
	Property string            `json:"property"`
	Oracle   string            `json:"oracle"`
	Where    map[string]string `json:"where"`
	What     string            `json:"what"`
}

type findingsFile struct {
	Findings []KnownFinding `json:"findings"`
	Fixed    []string       `json:"fixed"`
}

// Run is the state of one check execution.
type Run struct {
	ID    string
	Tier  string
	Seed  int
	Start time.Time

	mu          sync.Mutex
	States      int64
	Transitions int64
	Validated   int64
	Exhaustive  bool
	Caps        []string
	Bound       string
	Rule        string
	Samples     []any
	Outcomes    map[string]int64
	Extra       map[string]any
	Assumptions []string

	known      []KnownFinding
	knownSeen  map[int]int64
	knownFirst map[int]string
	violations []Violation
	violKeys   map[string]bool
	MaxViol    int
}

func NewRun(id, tier string) *Run {
	seed, _ := strconv.Atoi(os.Getenv("VERIF_SEED"))
	r := &Run{ID: id, Tier: tier, Seed: seed, Start: time.Now(), Exhaustive: true,
		Outcomes: map[string]int64{}, Extra: map[string]any{}, knownSeen: map[int]int64{}, knownFirst: map[int]string{},
		violKeys: map[string]bool{}, MaxViol: 25}
	var ff findingsFile
	if b, err := os.ReadFile(filepath.Join(Root(), "known_findings.json")); err == nil {
		if err := json.Unmarshal(b, &ff); err != nil {
			Harness("known_findings.json does not parse: %v", err)
		}
	}
	for _, k := range ff.Findings {
		if k.Property == id {
			r.known = append(r.known, k)
		}
	}
	return r
}

// Harness reports a failure of the machinery itself; never a verdict.
func Harness(format string, a ...any) {
	fmt.Printf("HARNESS-ERROR "+format+"\n", a...)
	os.Exit(2)
}

func (r *Run) AddStates(n int64)      { r.mu.Lock(); r.States += n; r.mu.Unlock() }
func (r *Run) AddTransitions(n int64) { r.mu.Lock(); r.Transitions += n; r.mu.Unlock() }
func (r *Run) AddValidated(n int64)   { r.mu.Lock(); r.Validated += n; r.mu.Unlock() }
func (r *Run) Outcome(k string, n int64) {
	r.mu.Lock()
	r.Outcomes[k] += n
	r.mu.Unlock()
}
func (r *Run) Sample(s any) {
	r.mu.Lock()
	if len(r.Samples) < 8 {
		r.Samples = append(r.Samples, s)
	}
	r.mu.Unlock()
}
func (r *Run) Cap(s string) {
	r.mu.Lock()
	r.Exhaustive = false
	r.Caps = append(r.Caps, s)
	r.mu.Unlock()
}
func (r *Run) Set(k string, v any) { r.mu.Lock(); r.Extra[k] = v; r.mu.Unlock() }
func (r *Run) Add(k string, n int64) {
	r.mu.Lock()
	cur, _ := r.Extra[k].(int64)
	r.Extra[k] = cur + n
	r.mu.Unlock()
}

func matchWhere(where, feat map[string]string) bool {
	for k, v := range where {
		fv, ok := feat[k]
		if !ok {
			return false
		}
		if strings.HasPrefix(v, "~") {
			if !strings.Contains(fv, v[1:]) {
				return false
			}
		} else if fv != v {
			return false
		}
	}
	return true
}

// Report files an oracle failure: it is either matched by a committed known finding (same sub-oracle and
// feature predicate) or becomes a VIOLATION. Returns true when it was a known finding.
func (r *Run) Report(v Violation) bool {
	r.mu.Lock()
	defer r.mu.Unlock()
	for i, k := range r.known {
		if k.Oracle == v.Oracle && matchWhere(k.Where, v.Features) {
			r.knownSeen[i]++
			if _, ok := r.knownFirst[i]; !ok {
				b, _ := json.Marshal(v.Case)
				r.knownFirst[i] = string(b)
			}
			return true
		}
	}
	key := v.Oracle + "|" + featKey(v.Features)
	if r.violKeys[key] {
		cur, _ := r.Extra["violations_suppressed_same_key"].(int64)
		r.Extra["violations_suppressed_same_key"] = cur + 1
		return false
	}
	r.violKeys[key] = true
	if len(r.violations) < r.MaxViol {
		r.violations = append(r.violations, v)
	}
	return false
}

func featKey(f map[string]string) string {
	ks := make([]string, 0, len(f))
	for k := range f {
		ks = append(ks, k)
	}
	sort.Strings(ks)
	var sb strings.Builder
	for _, k := range ks {
		sb.WriteString(k + "=" + f[k] + ";")
	}
	return sb.String()
}

func (r *Run) ViolationCount() int { r.mu.Lock(); defer r.mu.Unlock(); return len(r.violations) }

// Finish writes the evidence file and replay artefacts, prints KNOWN-FINDING / VIOLATION lines and exits.
func (r *Run) Finish() {
	r.mu.Lock()
	defer r.mu.Unlock()
	wall := time.Since(r.Start).Seconds()
	distinct := int64(len(r.Outcomes))
	cov := map[string]any{
		"states":                        r.States,
		"transitions":                   r.Transitions,
		"traces_validated_against_impl": r.Validated,
		"samples":                       r.Samples,
		"exhaustive":                    r.Exhaustive,
		"bound":                         r.Bound,
		"rule":                          r.Rule,
		"caps_hit":                      r.Caps,
		"distinct_outcomes":             distinct,
		"outcome_histogram":             topOutcomes(r.Outcomes, 40),
	}
	for k, v := range r.Extra {
		cov[k] = v
	}
	var knownLines []string
	for i, k := range r.known {
		if n := r.knownSeen[i]; n > 0 {
			knownLines = append(knownLines, fmt.Sprintf("KNOWN-FINDING: property=%s %s [oracle=%s cases=%d first=%s]", r.ID, k.What, k.Oracle, n, trunc(r.knownFirst[i], 160)))
		}
	}
	cov["known_findings_seen"] = knownLines
	if len(r.Samples) == 0 {
		cov["samples"] = []any{"(no case explored)"}
	}
	ev := map[string]any{
		"property_id": r.ID, "tier": r.Tier, "seed": r.Seed, "level": "model_checking",
		"coverage": cov, "assumptions": r.Assumptions, "wall_s": wall, "violations": len(r.violations),
	}
	if ev["assumptions"] == nil {
		ev["assumptions"] = []string{}
	}
	b, _ := json.MarshalIndent(ev, "", " ")
	evDir := filepath.Join(Root(), "evidence")
	os.MkdirAll(evDir, 0o755)
	if err := os.WriteFile(filepath.Join(evDir, r.ID+".json"), append(b, '\n'), 0o644); err != nil {
		Harness("cannot write evidence: %v", err)
	}
	fmt.Printf("[%s %s] states=%d transitions=%d validated=%d distinct_outcomes=%d exhaustive=%v bound=%q wall=%.1fs\n",
		r.ID, r.Tier, r.States, r.Transitions, r.Validated, distinct, r.Exhaustive, r.Bound, wall)
	for _, c := range r.Caps {
		fmt.Printf("[%s] cap hit: %s\n", r.ID, c)
	}
	for _, l := range knownLines {
		fmt.Println(l)
	}
	if len(r.violations) == 0 {
		os.Exit(0)
	}
	for _, v := range r.violations {
		vb, _ := json.MarshalIndent(map[string]any{"property": r.ID, "violation": v}, "", " ")
		h := sha256.Sum256(vb)
		dir := filepath.Join(Root(), "replays", r.ID)
		os.MkdirAll(dir, 0o755)
		p := filepath.Join(dir, hex.EncodeToString(h[:6])+".json")
		os.WriteFile(p, append(vb, '\n'), 0o644)
		fmt.Printf("  oracle=%s what=%s features=%s\n", v.Oracle, trunc(v.What, 260), featKey(v.Features))
		fmt.Printf("VIOLATION property=%s replay=%s\n", r.ID, p)
	}
	os.Exit(1)
}

func trunc(s string, n int) string {
	if len(s) > n {
		return s[:n] + "…"
	}
	return s
}

func topOutcomes(m map[string]int64, n int) map[string]int64 {
	type kv struct {
		k string
		v int64
	}
	var l []kv
	for k, v := range m {
		l = append(l, kv{k, v})
	}
	sort.Slice(l, func(i, j int) bool {
		if l[i].v != l[j].v {
			return l[i].v > l[j].v
		}
		return l[i].k < l[j].k
	})
	out := map[string]int64{}
	for i, e := range l {
		if i >= n {
			break
		}
		out[e.k] = e.v
	}
	return out
}

// LoadReplay reads a replay artefact written by Finish.
func LoadReplay(path string) (string, Violation) {
	b, err := os.ReadFile(path)
	if err != nil {
		Harness("cannot read replay %s: %v", path, err)
	}
	var w struct {
		Property  string    `json:"property"`
		Violation Violation `json:"violation"`
	}
	if err := json.Unmarshal(b, &w); err != nil {
		Harness("replay %s does not parse: %v", path, err)
	}
	return w.Property, w.Violation
}

// Deadline returns the soft time budget of a tier (an internal deadline yields exhaustive:false, exit 0).
func Deadline(tier string, quick, thorough time.Duration) time.Time {
	if s := os.Getenv("VERIF_BUDGET_S"); s != "" {
		if n, err := strconv.Atoi(s); err == nil {
			return time.Now().Add(time.Duration(n) * time.Second)
		}
	}
	if tier == "thorough" {
		return time.Now().Add(thorough)
	}
	return time.Now().Add(quick)
}

// Pick selects about one in n of the given ids, by a hash of the id rather than by position: a positional stride
// aliases with the innermost loops of the enumeration (every n-th scenario then has the same last feature).
func Pick(id string, n int) bool {
	h := uint32(2166136261)
	for i := 0; i < len(id); i++ {
		h ^= uint32(id[i])
		h *= 16777619
	}
	h ^= h >> 15
	h *= 2246822519
	h ^= h >> 13
	return h%uint32(n) == 0
}
