package scen

import (
	"fmt"
	"regexp"
	"sort"
	"strings"
)

// Sec is one @Security annotation (one alternative with a single check).
type Sec struct {
	Scheme  string   `json:"scheme"`
	Scopes  []string `json:"scopes"`
	NoProps bool     `json:"no_props,omitempty"` // written as `@Security(scheme)` without a properties object
}

// Param is one function parameter together with its binding annotation.
type Param struct {
	Name     string `json:"name"`
	Type     string `json:"type"`               // Go type expression as written ("string", "*int", "[]string", "Body", "context.Context")
	In       string `json:"in"`                 // Path | Query | Header | FormField | Body | "" (no annotation: context or deliberately unbound)
	Alias    string `json:"alias,omitempty"`    // {name: "..."}
	Validate string `json:"validate,omitempty"` // {validate: "..."}
	Ref      string `json:"ref,omitempty"`      // name written in the annotation when it differs from Name (perturbations)
	NewDecl  bool   `json:"new_decl,omitempty"` // with Method.GroupParams: starts a declaration of its own even if the previous parameter has the same type
}

// Method is one controller method with its annotations.
type Method struct {
	ValueRecv   bool     `json:"value_recv,omitempty"`   // func (c Ctl) instead of func (c *Ctl)
	GroupParams bool     `json:"group_params,omitempty"` // write consecutive same-typed parameters as one declaration
	Name        string   `json:"name"`
	Verb        string   `json:"verb"`  // "" = no @Method annotation
	Route       *string  `json:"route"` // nil = no @Route annotation
	Hidden      bool     `json:"hidden,omitempty"`
	HiddenForm  int      `json:"hidden_form,omitempty"` // which spelling of @Hidden (see MethodComment)
	Deprecated  bool     `json:"deprecated,omitempty"`
	Params      []Param  `json:"params,omitempty"`
	Ret         string   `json:"ret,omitempty"`      // value type; "" = error only
	Err         string   `json:"err,omitempty"`      // error type, default "error"; "-" = no error return at all
	Response    string   `json:"response,omitempty"` // "201 Created" -> @Response(201) Created
	ErrResps    []string `json:"err_resps,omitempty"`
	Security    []Sec    `json:"security,omitempty"`
	Lead        []string `json:"lead,omitempty"`  // raw comment lines placed first (free text etc.)
	Extra       []string `json:"extra,omitempty"` // raw comment lines placed after the generated annotations
	File        string   `json:"file,omitempty"`  // other file of the same package ("" = the controller's file)
	Body        string   `json:"-"`               // method body override (runtime seam)
	Recv        string   `json:"recv,omitempty"`  // receiver type override (methods on a same-named non-controller struct)
	// Style varies how the same annotations are written: 0 = canonical order; 1 = reversed order, a leading free-text
	// line and a description on every parameter annotation (the meaning is unchanged)
	Style int `json:"style,omitempty"`
}

// Controller is one controller struct.
type Controller struct {
	Name     string   `json:"name"`
	Pkg      string   `json:"pkg"`    // package directory (and name)
	Prefix   *string  `json:"prefix"` // nil = no @Route on the controller
	Tag      *string  `json:"tag"`    // nil = no @Tag
	Security []Sec    `json:"security,omitempty"`
	Methods  []Method `json:"methods"`
	Lead     []string `json:"lead,omitempty"`
	Extra    []string `json:"extra,omitempty"`
	Grouped  bool     `json:"grouped,omitempty"`  // declared inside a grouped type ( ... ) block
	NoEmbed  bool     `json:"no_embed,omitempty"` // a plain struct (not a controller) carrying annotated methods
	File     string   `json:"file,omitempty"`     // file name override (several controllers in one file)
	Fields   string   `json:"-"`                  // extra struct fields (runtime seam)
}

// Unit is everything one scenario contributes to a project.
type Unit struct {
	Controllers []Controller
	Decls       map[string]string   // package dir -> extra Go declarations (types, enums, aliases)
	Imports     map[string][]string // package dir -> extra import paths ("alias path" or just path)
	Files       map[string]string   // "<package dir>/<file>.go" -> further declarations of that package in a file of their own
}

func S(s string) *string { return &s }

func secLine(s Sec) string {
	if s.NoProps {
		return fmt.Sprintf("// @Security(%s)", s.Scheme)
	}
	if len(s.Scopes) == 0 {
		return fmt.Sprintf("// @Security(%s, { scopes: [] })", s.Scheme)
	}
	var q []string
	for _, sc := range s.Scopes {
		q = append(q, fmt.Sprintf("%q", sc))
	}
	return fmt.Sprintf("// @Security(%s, { scopes: [%s] })", s.Scheme, strings.Join(q, ", "))
}

func paramLine(p Param) string {
	ref := p.Name
	if p.Ref != "" {
		ref = p.Ref
	}
	var props []string
	if p.Alias != "" {
		props = append(props, fmt.Sprintf("name: %q", p.Alias))
	}
	if p.Validate != "" {
		props = append(props, fmt.Sprintf("validate: %q", p.Validate))
	}
	if len(props) > 0 {
		return fmt.Sprintf("// @%s(%s, { %s })", p.In, ref, strings.Join(props, ", "))
	}
	return fmt.Sprintf("// @%s(%s)", p.In, ref)
}

// MethodComment renders the doc comment lines of a method.
func MethodComment(m Method) []string {
	var l []string
	l = append(l, m.Lead...)
	if m.Verb != "" {
		l = append(l, "// @Method("+m.Verb+")")
	}
	if m.Route != nil {
		l = append(l, "// @Route("+*m.Route+")")
	}
	for _, p := range m.Params {
		if p.In != "" {
			l = append(l, paramLine(p))
		}
	}
	if m.Hidden {
		// every way of writing it hides the method: bare, with a description, with a value, with both
		l = append(l, []string{"// @Hidden", "// @Hidden not for the public", "// @Hidden(INTERNAL)", "// @Hidden(INTERNAL) not for the public"}[m.HiddenForm%4])
	}
	if m.Deprecated {
		l = append(l, "// @Deprecated use something else")
	}
	for _, s := range m.Security {
		l = append(l, secLine(s))
	}
	if m.Response != "" {
		parts := strings.SplitN(m.Response, " ", 2)
		line := "// @Response(" + parts[0] + ")"
		if len(parts) > 1 {
			line += " " + parts[1]
		}
		l = append(l, line)
	}
	for _, e := range m.ErrResps {
		parts := strings.SplitN(e, " ", 2)
		line := "// @ErrorResponse(" + parts[0] + ")"
		if len(parts) > 1 {
			line += " " + parts[1]
		}
		l = append(l, line)
	}
	l = append(l, m.Extra...)
	if m.Style == 1 {
		gen := l[len(m.Lead):]
		out := append([]string(nil), m.Lead...)
		out = append(out, "// Free text first: what the method does (ünïcode)")
		for i := len(gen) - 1; i >= 0; i-- {
			line := gen[i]
			if annParamRe.MatchString(line) {
				line += " the value the caller passes"
			}
			out = append(out, line)
		}
		return out
	}
	return l
}

var annParamRe = regexp.MustCompile(`^// @(Path|Query|Header|FormField|Body)\(`)

func renderMethod(sb *strings.Builder, c Controller, m Method) {
	for _, l := range MethodComment(m) {
		sb.WriteString(l + "\n")
	}
	recv := c.Name
	if m.Recv != "" {
		recv = m.Recv
	}
	var ps []string
	for i := 0; i < len(m.Params); i++ {
		p := m.Params[i]
		names := p.Name
		// GroupParams: consecutive parameters of one type share a declaration ("a, b, c string")
		for m.GroupParams && i+1 < len(m.Params) && m.Params[i+1].Type == p.Type && !m.Params[i+1].NewDecl {
			i++
			names += ", " + m.Params[i].Name
		}
		ps = append(ps, names+" "+p.Type)
	}
	errT := m.Err
	if errT == "" {
		errT = "error"
	}
	var rets []string
	if m.Ret != "" {
		rets = append(rets, m.Ret)
	}
	if errT != "-" {
		rets = append(rets, errT)
	}
	sig := ""
	switch len(rets) {
	case 0:
	case 1:
		sig = " " + rets[0]
	default:
		sig = " (" + strings.Join(rets, ", ") + ")"
	}
	star := "*"
	if m.ValueRecv {
		star = ""
	}
	fmt.Fprintf(sb, "func (c %s%s) %s(%s)%s {\n", star, recv, m.Name, strings.Join(ps, ", "), sig)
	if m.Body != "" {
		sb.WriteString(m.Body)
	} else {
		var names []string
		for i, r := range rets {
			fmt.Fprintf(sb, "\tvar r%d %s\n", i, r)
			names = append(names, fmt.Sprintf("r%d", i))
		}
		if len(names) > 0 {
			sb.WriteString("\treturn " + strings.Join(names, ", ") + "\n")
		}
	}
	sb.WriteString("}\n\n")
}

func renderController(sb *strings.Builder, c Controller) {
	if c.Grouped {
		// the declaration sits inside a grouped `type ( ... )` block, with its doc comment on the spec itself
		var inner strings.Builder
		cc := c
		cc.Grouped = false
		renderController(&inner, cc)
		text := strings.TrimRight(inner.String(), "\n")
		text = strings.Replace(text, "type "+c.Name+" struct {", c.Name+" struct {", 1)
		sb.WriteString("type (\n")
		for _, l := range strings.Split(text, "\n") {
			sb.WriteString("\t" + l + "\n")
		}
		sb.WriteString(")\n\n")
		return
	}
	for _, l := range c.Lead {
		sb.WriteString(l + "\n")
	}
	if c.Tag != nil {
		sb.WriteString("// @Tag(" + *c.Tag + ")\n")
	}
	if c.Prefix != nil {
		sb.WriteString("// @Route(" + *c.Prefix + ")\n")
	}
	for _, s := range c.Security {
		sb.WriteString(secLine(s) + "\n")
	}
	for _, l := range c.Extra {
		sb.WriteString(l + "\n")
	}
	if c.NoEmbed {
		fmt.Fprintf(sb, "type %s struct {\n%s}\n\n", c.Name, c.Fields)
	} else {
		fmt.Fprintf(sb, "type %s struct {\n\truntime.GleeceController\n%s}\n\n", c.Name, c.Fields)
	}
}

type fileKey struct{ pkg, file string }

// Render adds the Go sources of the units to the project and returns the controller globs, one per package.
func Render(p *Project, units []Unit) []string {
	type fileBuf struct {
		body    strings.Builder
		imports map[string]bool
	}
	files := map[fileKey]*fileBuf{}
	get := func(pkg, file string) *fileBuf {
		k := fileKey{pkg, file}
		if files[k] == nil {
			files[k] = &fileBuf{imports: map[string]bool{}}
		}
		return files[k]
	}
	pkgs := map[string]bool{}
	for _, u := range units {
		for pkg, decl := range u.Decls {
			pkgs[pkg] = true
			f := get(pkg, "types.go")
			f.body.WriteString(decl + "\n")
			for _, imp := range u.Imports[pkg] {
				f.imports[imp] = true
			}
		}
		for path, decl := range u.Files {
			i := strings.LastIndexByte(path, '/')
			pkgs[path[:i]] = true
			get(path[:i], path[i+1:]).body.WriteString(decl + "\n")
		}
		for _, c := range u.Controllers {
			pkgs[c.Pkg] = true
			fileName := "ctl_" + strings.ToLower(c.Name) + ".go"
			if c.File != "" {
				fileName = c.File
			}
			f := get(c.Pkg, fileName)
			if !c.NoEmbed {
				f.imports["github.com/gopher-fleece/runtime"] = true
			}
			renderController(&f.body, c)
			for _, imp := range u.Imports[c.Pkg] {
				f.imports[imp] = true
			}
			for _, m := range c.Methods {
				mf := f
				if m.File != "" {
					mf = get(c.Pkg, m.File)
					for _, imp := range u.Imports[c.Pkg] {
						mf.imports[imp] = true
					}
				}
				renderMethod(&mf.body, c, m)
			}
		}
	}
	for k, f := range files {
		body := f.body.String()
		var sb strings.Builder
		if strings.Contains(k.file, "generated") {
			// the standard marker of machine-written sources; such files are ordinary Go files of the package
			sb.WriteString("// Code generated by scaffold. DO NOT EDIT.\n\n")
		}
		sb.WriteString("package " + pkgName(k.pkg) + "\n\n")
		var imps []string
		for imp := range f.imports {
			// keep an import only if the file uses it (cheap textual test on the package's last element / alias)
			alias, path := imp, imp
			if i := strings.IndexByte(imp, ' '); i >= 0 {
				alias, path = imp[:i], imp[i+1:]
			} else {
				alias = path[strings.LastIndexByte(path, '/')+1:]
			}
			if alias == "." || alias == "_" || regexp.MustCompile(`(^|[^A-Za-z0-9_])`+regexp.QuoteMeta(alias)+`\.`).MatchString(body) {
				if alias == path[strings.LastIndexByte(path, '/')+1:] {
					imps = append(imps, fmt.Sprintf("\t%q", path))
				} else {
					imps = append(imps, fmt.Sprintf("\t%s %q", alias, path))
				}
			}
		}
		sort.Strings(imps)
		if len(imps) > 0 {
			sb.WriteString("import (\n" + strings.Join(imps, "\n") + "\n)\n\n")
		}
		sb.WriteString(body)
		p.Files[k.pkg+"/"+k.file] = sb.String()
	}
	var globs []string
	for pkg := range pkgs {
		globs = append(globs, "./"+pkg+"/*.go")
	}
	sort.Strings(globs)
	return globs
}

func pkgName(dir string) string {
	return dir[strings.LastIndexByte(dir, '/')+1:]
}

// StdImports are imports commonly needed by generated declarations.
var StdImports = []string{"context", "time"}
