// Package c13 decides C13 (output is a deterministic function of project and configuration) by driving the real
// CLI binary (build tag verif) in fresh processes through every permutation the order hooks can return at each
// map-iteration site (stateless DFS over the choice points an execution actually hits, bounded by the number of
// sites that deviate from the canonical order), through permuted glob lists, through all five engines, and by
// comparing artifacts byte for byte. An unhooked binary is run repeatedly as a refutation pass.
package c13

import (
	"crypto/sha256"
	"encoding/hex"
	"encoding/json"
	"fmt"
	"os"
	"path/filepath"
	"regexp"
	"sort"
	"strconv"
	"strings"
	"sync"
	"time"

	"verif/internal/core"
	"verif/internal/scen"
)

type point struct {
	Idx  int
	Site string
	N    int
	Perm int
}

func fact(n int) int {
	f := 1
	for i := 2; i <= n; i++ {
		f *= i
	}
	return f
}

// permIndex returns the index of a permutation in the factorial number system used by verifhook.
func permIndex(p []int) int {
	pool := make([]int, len(p))
	for i := range pool {
		pool[i] = i
	}
	idx := 0
	for i, v := range p {
		pos := 0
		for j, x := range pool {
			if x == v {
				pos = j
			}
		}
		idx += pos * fact(len(p)-1-i)
		pool = append(pool[:pos], pool[pos+1:]...)
	}
	return idx
}

// alternatives returns the permutation indices explored at a choice point with n elements: all of them for
// n <= 5, otherwise every adjacent transposition, the reversal and the two rotations (reported as a cap).
func alternatives(n int) (alts []int, all bool) {
	if n <= 5 {
		for i := 1; i < fact(n); i++ {
			alts = append(alts, i)
		}
		return alts, true
	}
	id := make([]int, n)
	for i := range id {
		id[i] = i
	}
	add := func(p []int) { alts = append(alts, permIndex(p)) }
	for i := 0; i+1 < n; i++ {
		p := append([]int(nil), id...)
		p[i], p[i+1] = p[i+1], p[i]
		add(p)
	}
	rev := make([]int, n)
	for i := range rev {
		rev[i] = n - 1 - i
	}
	add(rev)
	add(append(append([]int(nil), id[1:]...), id[0]))
	add(append([]int{id[n-1]}, id[:n-1]...))
	return alts, false
}

type artifacts struct {
	Exit   int
	Spec   string
	Routes string
	Out    string
}

func digest(s string) string {
	h := sha256.Sum256([]byte(s))
	return hex.EncodeToString(h[:6])
}

type runner struct {
	dir   string
	mu    sync.Mutex
	seq   int
	execs int
}

// exec runs the tagged CLI in a fresh process with the given order choices and returns artifacts and the trace.
func (r *runner) exec(choices map[int]int, plain bool) (artifacts, []point) {
	r.mu.Lock()
	r.seq++
	r.execs++
	n := r.seq
	r.mu.Unlock()
	// every execution works on its own copy of the project so that runs can overlap
	work := fmt.Sprintf("%s-run%05d", r.dir, n)
	copyDir(r.dir, work)
	defer os.RemoveAll(work)
	trace := filepath.Join(work, ".trace")
	var parts []string
	for k, v := range choices {
		parts = append(parts, fmt.Sprintf("%d:%d", k, v))
	}
	sort.Strings(parts)
	bin := scen.CLIPath(plain)
	res := scen.RunCLIBin(bin, work, []string{"generate", "spec-and-routes", "-c", "./gleece.config.json"}, 180,
		"VERIF_ORDER_CHOICES="+strings.Join(parts, ","), "VERIF_ORDER_TRACE="+trace)
	a := artifacts{Exit: res.Exit, Spec: res.Files["dist/openapi.json"], Routes: res.Files["dist/routes/gleece.routes.go"], Out: res.Output}
	var pts []point
	if b, err := os.ReadFile(trace); err == nil {
		for _, l := range strings.Split(strings.TrimSpace(string(b)), "\n") {
			f := strings.Fields(l)
			if len(f) != 4 {
				continue
			}
			idx, _ := strconv.Atoi(f[0])
			nn, _ := strconv.Atoi(f[2])
			pp, _ := strconv.Atoi(f[3])
			pts = append(pts, point{idx, f[1], nn, pp})
		}
	}
	return a, pts
}

func copyDir(src, dst string) {
	filepath.Walk(src, func(p string, info os.FileInfo, err error) error {
		if err != nil {
			return nil
		}
		rel, _ := filepath.Rel(src, p)
		if info.IsDir() {
			os.MkdirAll(filepath.Join(dst, rel), 0o755)
			return nil
		}
		b, _ := os.ReadFile(p)
		os.WriteFile(filepath.Join(dst, rel), b, 0o644)
		return nil
	})
}

// ---- projects ------------------------------------------------------------------------------------------------

type proj struct {
	Name string
	P    *scen.Project
	Feat map[string]string
}

func mkProject(name string, units []scen.Unit, engine string, globsOrder func([]string) []string) proj {
	p := scen.NewProject()
	scen.Render(p, units)
	globs := []string{"./p/*.go", "./q/*.go"} // controller packages only: 4 files, so every permutation of the file list is explored
	if globsOrder != nil {
		globs = globsOrder(globs)
	}
	p.Files["auth/auth.go"] = scen.AuthPackage
	cfg := scen.BaseConfig(engine, "3.0.0", globs)
	p.Config = cfg
	return proj{Name: name, P: p, Feat: map[string]string{"project": name, "engine": engine}}
}

func layoutUnits(sameNamedTypes bool) []scen.Unit {
	mod := "type Item struct {\n\tV string `json:\"v\"`\n}\n\ntype Kind string\n\nconst (\n\tKindA Kind = \"a\"\n\tKindB Kind = \"b\"\n)\n"
	mod2 := ""
	other := "m1.Other"
	if sameNamedTypes {
		mod2 = "type Item struct {\n\tW int `json:\"w\"`\n}\n"
		other = "m2.Item"
	} else {
		mod += "\ntype Other struct {\n\tW int `json:\"w\"`\n}\n"
	}
	s := scen.S
	a := scen.Controller{Name: "Alpha", Pkg: "p", Prefix: s("/alpha"), Tag: s("Alpha"), Methods: []scen.Method{
		{Name: "AlphaOne", Verb: "GET", Route: s("/one/{id}"), Params: []scen.Param{{Name: "id", Type: "string", In: "Path"}, {Name: "k", Type: "m1.Kind", In: "Query"}}, Ret: "m1.Item"},
		{Name: "AlphaTwo", Verb: "POST", Route: s("/two"), Params: []scen.Param{{Name: "b", Type: other, In: "Body"}}, Ret: "[]m1.Item", File: "alpha_more.go"},
	}}
	b := scen.Controller{Name: "Beta", Pkg: "p", Prefix: s("/beta"), Tag: s("Beta"), Methods: []scen.Method{
		{Name: "BetaOne", Verb: "GET", Route: s("/one"), Params: []scen.Param{{Name: "h", Type: "int", In: "Header"}}, Ret: other},
		{Name: "BetaTwo", Verb: "DELETE", Route: s("/two/{item-id}"), Params: []scen.Param{{Name: "id", Type: "string", In: "Path", Alias: "item-id"}}},
	}}
	c := scen.Controller{Name: "Gamma", Pkg: "q", Prefix: s("/gamma"), Tag: s("Gamma"), Methods: []scen.Method{
		{Name: "GammaOne", Verb: "PUT", Route: s("/one"), Params: []scen.Param{{Name: "b", Type: "m1.Item", In: "Body"}, {Name: "k", Type: "*m1.Kind", In: "Query"}}, Ret: "m1.Kind"},
	}}
	imports := []string{"m1 " + scen.ModulePath + "/m1", "m2 " + scen.ModulePath + "/m2"}
	decls := map[string]string{"m1": mod}
	if mod2 != "" {
		decls["m2"] = mod2
	}
	return []scen.Unit{{Controllers: []scen.Controller{a, b, c}, Decls: decls, Imports: map[string][]string{"p": imports, "q": imports}}}
}

// inProcessHistories: one long-lived process generating routes several times with different configurations (as a
// library user or a watch mode would). Every generation must produce what a fresh process produces for that
// configuration - nothing of an earlier configuration may linger in package-level state.
func inProcessHistories(run *core.Run, scratch string, p proj, tier string) {
	dir := filepath.Join(scratch, "inproc")
	pp := *p.P
	pp.Files = map[string]string{}
	for k, v := range p.P.Files {
		pp.Files[k] = v
	}
	pp.Files["ext/register.hbs"] = "// EXTENSION-A register routes\n"
	pp.Files["ext/imports.hbs"] = "// EXTENSION-B imports\n"
	pp.Files["ext/routestart.hbs"] = "// OVERRIDDEN-AS-EXTENSION route start\n"
	if err := pp.Write(dir); err != nil {
		core.Harness("cannot write project: %v", err)
	}
	letters := []scen.RoutesJob{
		{Key: "gin-plain", Engine: "gin"},
		{Key: "gin-ext-register", Engine: "gin", Extensions: map[string]string{"RegisterRoutesExtension": "./ext/register.hbs"}},
		{Key: "gin-ext-imports+routestart", Engine: "gin", Extensions: map[string]string{"ImportsExtension": "./ext/imports.hbs", "RouteStartRoutesExtension": "./ext/routestart.hbs"}},
		{Key: "gin-switches-on", Engine: "gin", EnumVal: true, TopEnum: true, RespVal: true},
		{Key: "echo-plain", Engine: "echo"},
	}
	depth := 3
	if tier == "thorough" {
		depth = 4
	}
	mk := func(tag string, seq []int) scen.Job {
		j := scen.Job{Dir: dir, Config: "./gleece.config.json", Timeout: 300}
		for i, li := range seq {
			rj := letters[li]
			rj.Key = fmt.Sprintf("%d:%s", i, rj.Key)
			// the histories run concurrently in one project directory: every history writes below a directory of its own
			rj.Out = fmt.Sprintf("./dist/h/%s/step%d/gleece.routes.go", tag, i)
			j.Routes = append(j.Routes, rj)
		}
		return j
	}
	fresh := make([]string, len(letters))
	for i := range letters {
		r := scen.RunJob(mk(fmt.Sprintf("fresh%d", i), []int{i}))
		a := r.Routes[fmt.Sprintf("0:%s", letters[i].Key)]
		if r.Crashed != "" || a.Err != "" || a.Panic != "" || a.Content == "" {
			core.Harness("in-process histories: configuration %s does not generate in a fresh process: %s %s %s", letters[i].Key, r.Crashed, a.Err, a.Panic)
		}
		fresh[i] = a.Content
	}
	var seqs [][]int
	var rec func(cur []int)
	rec = func(cur []int) {
		if len(cur) == depth {
			seqs = append(seqs, append([]int(nil), cur...))
			return
		}
		for i := range letters {
			rec(append(cur, i))
		}
	}
	rec(nil)
	results := make([]*scen.Result, len(seqs))
	scen.Pool(0, len(seqs), func(i int) { results[i] = scen.RunJob(mk(fmt.Sprintf("seq%d", i), seqs[i])) })
	for si, seq := range seqs {
		r := results[si]
		run.AddStates(1)
		var names []string
		for _, li := range seq {
			names = append(names, letters[li].Key)
		}
		for i, li := range seq {
			run.AddTransitions(1)
			run.AddValidated(1)
			a := r.Routes[fmt.Sprintf("%d:%s", i, letters[li].Key)]
			feat := map[string]string{"family": "in-process-history", "step": letters[li].Key, "position": fmt.Sprint(i)}
			cs := map[string]any{"project": p.Name, "history": names, "choices": map[string]int{}}
			switch {
			case r.Crashed != "" || a.Err != "" || a.Panic != "":
				run.Report(core.Violation{Oracle: "in-process-generation-equals-fresh-process", Features: feat, What: fmt.Sprintf("history %v: step %d (%s) failed although the same configuration generates in a fresh process: %s %s %s", names, i, letters[li].Key, r.Crashed, a.Err, a.Panic), Case: cs})
			case a.Content != fresh[li]:
				run.Report(core.Violation{Oracle: "in-process-generation-equals-fresh-process", Features: feat, What: fmt.Sprintf("history %v: the routes file of step %d (%s) differs from what a fresh process writes for that configuration: %s", names, i, letters[li].Key, diffLines(fresh[li], a.Content)), Case: cs})
			}
		}
	}
	run.Set("in_process_histories", len(seqs))
	os.RemoveAll(dir)
}

var dateLine = regexp.MustCompile(`^\s*(//\s*)?Generated Date: \d{4}-\d{2}-\d{2}\s*$`)

// linesOnlyIn returns the lines of a (as a multiset) that b does not have.
func linesOnlyIn(a, b string) []string {
	have := map[string]int{}
	for _, l := range strings.Split(b, "\n") {
		have[l]++
	}
	var out []string
	for _, l := range strings.Split(a, "\n") {
		if have[l] > 0 {
			have[l]--
			continue
		}
		out = append(out, l)
	}
	return out
}

// aliasedEnum gives the Kind enum two further constants that repeat existing values (a default alias and a synonym).
func aliasedEnum(us []scen.Unit) []scen.Unit {
	us[0].Decls["m1"] = strings.Replace(us[0].Decls["m1"], "\tKindB Kind = \"b\"\n", "\tKindB Kind = \"b\"\n\tKindC Kind = \"c\"\n\tKindDefault Kind = KindA\n\tKindAlso Kind = \"b\"\n", 1)
	return us
}

// withSwitches turns on response validation and both experimental enum switches (their template sections list enum values).
func withSwitches(p proj) proj {
	scen.Set(p.P.Config, "routesConfig.validateResponsePayload", true)
	scen.Set(p.P.Config, "experimentalConfig", map[string]any{"validateTopLevelOnlyEnum": true, "generateEnumValidator": true})
	return p
}

func Main(tier, replay string) {
	run := core.NewRun("C13", tier)
	scratch := scen.MkScratch("c13")
	defer os.RemoveAll(scratch)
	deadline := core.Deadline(tier, 10*time.Minute, 60*time.Minute)
	reverse := func(g []string) []string {
		out := append([]string(nil), g...)
		for i, j := 0, len(out)-1; i < j; i, j = i+1, j-1 {
			out[i], out[j] = out[j], out[i]
		}
		return out
	}
	projects := []proj{
		mkProject("three controllers, two packages, types from two other packages", layoutUnits(false), "gin", nil),
		mkProject("same, globs listed in reverse order", layoutUnits(false), "gin", reverse),
		mkProject("same-named struct Item in two packages", layoutUnits(true), "gin", nil),
		withSwitches(mkProject("enum with aliased constants, all generator switches on", aliasedEnum(layoutUnits(false)), "gin", nil)),
	}
	bound := 1
	if tier == "thorough" {
		bound = 2
		for _, e := range []string{"echo", "chi"} {
			projects = append(projects, mkProject("three controllers, two packages — engine "+e, layoutUnits(false), e, nil))
		}
	}
	var replayChoices map[int]int
	if replay != "" {
		_, v := core.LoadReplay(replay)
		m := v.Case.(map[string]any)
		name, _ := m["project"].(string)
		var sel []proj
		for _, p := range projects {
			if p.Name == name {
				sel = append(sel, p)
			}
		}
		projects = sel
		replayChoices = map[int]int{}
		if cm, ok := m["choices"].(map[string]any); ok {
			for k, val := range cm {
				ki, _ := strconv.Atoi(k)
				replayChoices[ki] = int(val.(float64))
			}
		}
	}
	if replay == "" {
		inProcessHistories(run, scratch, projects[0], tier)
	}
	specByProject := map[string]string{}
	for pi, p := range projects {
		dir := filepath.Join(scratch, fmt.Sprintf("proj%d", pi))
		if err := p.P.Write(dir); err != nil {
			core.Harness("cannot write project: %v", err)
		}
		rn := &runner{dir: dir}
		base, pts := rn.exec(nil, false)
		if base.Exit != 0 {
			core.Harness("project %q is not accepted by the CLI: %s", p.Name, tail(base.Out))
		}
		// ownership: with every hooked site pinned, a repeated execution must be bit-identical
		again, _ := rn.exec(nil, false)
		run.AddValidated(1)
		if again.Spec != base.Spec || again.Routes != base.Routes {
			run.Report(core.Violation{Oracle: "pinned-orders-give-identical-output", Features: p.Feat, What: "two executions with every hooked iteration order pinned differ: an un-hooked source of nondeterminism reaches the output (" + firstDiff(base, again) + ")", Case: map[string]any{"project": p.Name, "choices": map[string]int{}}})
		}
		// the generation-date comment is the only thing skipGenerateDateComment=false may add
		if replayChoices == nil {
			work := dir + "-dated"
			copyDir(dir, work)
			dated := scen.CloneConfig(p.P.Config)
			scen.Set(dated, "routesConfig.skipGenerateDateComment", false)
			b, _ := json.MarshalIndent(dated, "", "  ")
			os.WriteFile(filepath.Join(work, "gleece.config.json"), b, 0o644)
			res := scen.RunCLIBin(scen.CLIPath(false), work, []string{"generate", "spec-and-routes", "-c", "./gleece.config.json"}, 180)
			os.RemoveAll(work)
			run.AddValidated(1)
			var extra []string
			if res.Exit == 0 {
				extra = linesOnlyIn(res.Files["dist/routes/gleece.routes.go"], base.Routes)
			}
			switch {
			case res.Exit != 0:
				run.Report(core.Violation{Oracle: "date-comment-is-the-only-difference", Features: p.Feat, What: "with skipGenerateDateComment=false the command fails: " + tail(res.Output), Case: map[string]any{"project": p.Name, "choices": map[string]int{}}})
			case res.Files["dist/openapi.json"] != base.Spec:
				run.Report(core.Violation{Oracle: "date-comment-is-the-only-difference", Features: p.Feat, What: "the spec changes with skipGenerateDateComment: " + diffLines(base.Spec, res.Files["dist/openapi.json"]), Case: map[string]any{"project": p.Name, "choices": map[string]int{}}})
			case len(extra) != 1 || !dateLine.MatchString(extra[0]) || len(linesOnlyIn(base.Routes, res.Files["dist/routes/gleece.routes.go"])) != 0:
				run.Report(core.Violation{Oracle: "date-comment-is-the-only-difference", Features: p.Feat, What: fmt.Sprintf("routes file with the date comment differs from the one without it by more than one 'Generated Date' line: added %q, removed %q", extra, linesOnlyIn(base.Routes, res.Files["dist/routes/gleece.routes.go"])), Case: map[string]any{"project": p.Name, "choices": map[string]int{}}})
			}
		}
		// the spec does not depend on the routing engine: the first project once per other engine (unhooked binary)
		if replayChoices == nil && pi == 0 {
			for _, eng := range []string{"echo", "mux", "chi", "fiber"} {
				work := fmt.Sprintf("%s-engine-%s", dir, eng)
				copyDir(dir, work)
				cfg := scen.CloneConfig(p.P.Config)
				scen.Set(cfg, "routesConfig.engine", eng)
				b, _ := json.MarshalIndent(cfg, "", "  ")
				os.WriteFile(filepath.Join(work, "gleece.config.json"), b, 0o644)
				res := scen.RunCLIBin(scen.CLIPath(false), work, []string{"generate", "spec-and-routes", "-c", "./gleece.config.json"}, 180)
				os.RemoveAll(work)
				run.AddValidated(1)
				if res.Exit != 0 {
					run.Outcome("engine "+eng+": project not generated (not judged)", 1)
				} else if res.Files["dist/openapi.json"] != base.Spec {
					run.Report(core.Violation{Oracle: "spec-independent-of-engine-and-glob-order", Features: map[string]string{"project": p.Name, "engine": eng}, What: "with engine " + eng + " the spec differs from the one generated with gin: " + diffLines(base.Spec, res.Files["dist/openapi.json"]), Case: map[string]any{"project": p.Name, "choices": map[string]int{}, "engine": eng}})
				}
			}
		}
		// what already lies at the output paths is no input: the same project and configuration over a spec that is the
		// same JSON document in other bytes (minified, re-indented) and over a routes file with other blank lines
		if replayChoices == nil {
			var doc any
			if json.Unmarshal([]byte(base.Spec), &doc) == nil {
				mini, _ := json.Marshal(doc)
				reind, _ := json.MarshalIndent(doc, "", "        ")
				for vi, stale := range []struct{ name, spec, routes string }{
					{"minified copy of the same document", string(mini), base.Routes + "\n\n"},
					{"re-indented copy with sorted keys", string(reind) + "\n", strings.Replace(base.Routes, "\n\n", "\n", 1)},
				} {
					work := fmt.Sprintf("%s-stale%d", dir, vi)
					copyDir(dir, work)
					os.MkdirAll(filepath.Join(work, "dist/routes"), 0o755)
					os.WriteFile(filepath.Join(work, "dist/openapi.json"), []byte(stale.spec), 0o644)
					os.WriteFile(filepath.Join(work, "dist/routes/gleece.routes.go"), []byte(stale.routes), 0o644)
					res := scen.RunCLIBin(scen.CLIPath(false), work, []string{"generate", "spec-and-routes", "-c", "./gleece.config.json"}, 180)
					os.RemoveAll(work)
					run.AddValidated(1)
					feat := map[string]string{"stale-output": stale.name}
					for k, v := range p.Feat {
						feat[k] = v
					}
					cs := map[string]any{"project": p.Name, "choices": map[string]int{}, "stale_output": stale.name}
					if res.Exit != 0 {
						run.Report(core.Violation{Oracle: "output-independent-of-previous-files", Features: feat, What: "the command fails over a " + stale.name + ": " + tail(res.Output), Case: cs})
					} else if res.Files["dist/openapi.json"] != base.Spec {
						run.Report(core.Violation{Oracle: "output-independent-of-previous-files", Features: feat, What: "over a " + stale.name + " the spec file is not the bytes a clean directory gets: " + diffLines(base.Spec, res.Files["dist/openapi.json"]), Case: cs})
					} else if res.Files["dist/routes/gleece.routes.go"] != base.Routes {
						run.Report(core.Violation{Oracle: "output-independent-of-previous-files", Features: feat, What: "over an existing routes file with other blank lines the routes file is not the bytes a clean directory gets: " + diffLines(base.Routes, res.Files["dist/routes/gleece.routes.go"]), Case: cs})
					}
				}
			}
		}
		run.Set(fmt.Sprintf("project_%d", pi), fmt.Sprintf("%s: %d choice points (%s)", p.Name, len(pts), sites(pts)))
		specByProject[p.Name] = base.Spec
		check := func(a artifacts, choices map[int]int, pts []point) {
			run.AddValidated(1)
			run.Outcome(fmt.Sprintf("spec %s routes %s", digest(a.Spec), digest(a.Routes)), 1)
			var devSites []string
			for _, pt := range pts {
				if choices[pt.Idx] != 0 {
					devSites = append(devSites, pt.Site)
				}
			}
			sort.Strings(devSites)
			feat := map[string]string{"deviating-sites": strings.Join(uniq(devSites), "+")}
			for k, v := range p.Feat {
				feat[k] = v
			}
			cm := map[string]int{}
			for k, v := range choices {
				cm[strconv.Itoa(k)] = v
			}
			c := map[string]any{"project": p.Name, "choices": cm, "deviating_points": describe(pts, choices)}
			if a.Exit != base.Exit {
				run.Report(core.Violation{Oracle: "exit-status-independent-of-order", Features: feat, What: fmt.Sprintf("exit status %d under permuted iteration order, %d canonically: %s", a.Exit, base.Exit, tail(a.Out)), Case: c})
				return
			}
			if a.Spec != base.Spec {
				run.Report(core.Violation{Oracle: "spec-bytes-independent-of-order", Features: feat, What: "the spec file differs under a permuted iteration order: " + diffLines(base.Spec, a.Spec), Case: c})
			}
			if a.Routes != base.Routes {
				run.Report(core.Violation{Oracle: "routes-bytes-independent-of-order", Features: feat, What: "the routes file differs under a permuted iteration order: " + diffLines(base.Routes, a.Routes), Case: c})
			}
		}
		if replayChoices != nil {
			a, rpts := rn.exec(replayChoices, false)
			check(a, replayChoices, rpts)
			run.AddStates(1)
			run.AddTransitions(int64(rn.execs))
			continue
		}
		// stateless DFS over the choice points actually hit, bounded by the number of deviating points
		type task struct {
			choices map[int]int
			from    int // only points with Idx >= from may deviate next
			depth   int
		}
		level := []task{{choices: map[int]int{}, from: 0, depth: 0}}
		traces := map[string][]point{"": pts}
		key := func(c map[int]int) string {
			var ks []string
			for k, v := range c {
				ks = append(ks, fmt.Sprintf("%d:%d", k, v))
			}
			sort.Strings(ks)
			return strings.Join(ks, ",")
		}
		capped := false
		cappedDepth2 := false
		for d := 1; d <= bound; d++ {
			var next []task
			var jobs []task
			for _, t := range level {
				for _, pt := range traces[key(t.choices)] {
					if pt.Idx < t.from {
						continue
					}
					alts, all := alternatives(pt.N)
					if d >= 2 && pt.N > 2 {
						// second deviating point: adjacent transpositions (they generate every permutation), reversal, rotations
						alts = nil
						id := make([]int, pt.N)
						for i := range id {
							id[i] = i
						}
						for i := 0; i+1 < pt.N; i++ {
							p := append([]int(nil), id...)
							p[i], p[i+1] = p[i+1], p[i]
							alts = append(alts, permIndex(p))
						}
						rev := make([]int, pt.N)
						for i := range rev {
							rev[i] = pt.N - 1 - i
						}
						alts = append(alts, permIndex(rev))
						if !cappedDepth2 {
							cappedDepth2 = true
							run.Cap("with two deviating points, each point is explored with adjacent transpositions and the reversal only (all permutations with one deviating point)")
						}
					}
					if d >= 2 && len(t.choices) > 0 {
						// the first deviating point of a pair is likewise restricted to the generator subset
						skip := false
						for k, v := range t.choices {
							if !isGenerator(traces[""], k, v) {
								skip = true
							}
						}
						if skip {
							continue
						}
					}
					if !all && !capped {
						capped = true
						run.Cap(fmt.Sprintf("a choice point with %d elements (%s) is explored with adjacent transpositions, reversal and rotations only", pt.N, pt.Site))
					}
					for _, alt := range alts {
						c := map[int]int{}
						for k, v := range t.choices {
							c[k] = v
						}
						c[pt.Idx] = alt
						jobs = append(jobs, task{choices: c, from: pt.Idx + 1, depth: d})
					}
				}
			}
			if time.Now().After(deadline) {
				run.Cap(fmt.Sprintf("deadline reached before deviation bound %d of project %q", d, p.Name))
				break
			}
			results := make([]artifacts, len(jobs))
			ptsOut := make([][]point, len(jobs))
			scen.Pool(0, len(jobs), func(i int) {
				results[i], ptsOut[i] = rn.exec(jobs[i].choices, false)
			})
			for i, j := range jobs {
				check(results[i], j.choices, ptsOut[i])
				traces[key(j.choices)] = ptsOut[i]
				next = append(next, j)
			}
			run.Set(fmt.Sprintf("project_%d_executions_with_%d_deviating_points", pi, d), len(jobs))
			level = next
		}
		// refutation pass: the unhooked binary, real map order, repeated
		k := 6
		if tier == "thorough" {
			k = 20
		}
		plain := make([]artifacts, k)
		scen.Pool(0, k, func(i int) { plain[i], _ = rn.exec(nil, true) })
		for i := 1; i < k; i++ {
			run.AddValidated(1)
			if plain[i].Spec != plain[0].Spec || plain[i].Routes != plain[0].Routes || plain[i].Exit != plain[0].Exit {
				feat := map[string]string{"binary": "unhooked"}
				for kk, v := range p.Feat {
					feat[kk] = v
				}
				run.Report(core.Violation{Oracle: "repeated-runs-are-byte-identical", Features: feat, What: "two runs of the unhooked CLI on the same project differ: " + firstDiff(plain[0], plain[i]), Case: map[string]any{"project": p.Name, "choices": map[string]int{}}})
				break
			}
		}
		run.AddStates(int64(rn.execs))
		run.AddTransitions(int64(rn.execs))
		os.RemoveAll(dir)
	}
	// the spec does not depend on the routing engine, nor on the order in which globs are listed
	if replay == "" {
		names := []string{}
		for n := range specByProject {
			names = append(names, n)
		}
		sort.Strings(names)
		ref := specByProject[projects[0].Name]
		for _, n := range names {
			if strings.HasPrefix(n, "three controllers") || strings.HasPrefix(n, "same, globs") {
				run.AddValidated(1)
				if specByProject[n] != ref {
					run.Report(core.Violation{Oracle: "spec-independent-of-engine-and-glob-order", Features: map[string]string{"project": n}, What: "the spec differs from the one of the first project although only the engine / glob order differs: " + diffLines(ref, specByProject[n]), Case: map[string]any{"project": n, "choices": map[string]int{}}})
				}
			}
		}
	}
	run.Sample(map[string]any{"project": projects[0].Name, "choices": map[string]int{"0": 1}, "meaning": "first choice point returns its 2nd permutation, all others canonical"})
	run.Bound = fmt.Sprintf("%d projects (3 controllers over 2 packages and 3 files, types from 2 further packages; glob order reversed; same-named types%s); every permutation at every hooked choice point with <= %d points deviating from canonical order; %s runs of the unhooked binary per project; every sequence of %d route generations over 5 configurations (plain, two template-extension sets, all switches on, another engine) in one process, each step compared with a fresh process", len(projects), map[string]string{"quick": "", "thorough": "; 2 more engines"}[tier], bound, map[string]string{"quick": "6", "thorough": "20"}[tier], map[string]int{"quick": 3, "thorough": 4}[tier])
	run.Rule = "state = one execution of the real CLI in a fresh process under a vector of iteration-order choices; transition = one such execution; validated = byte comparisons of spec and routes files with the canonical execution (plus repeated unhooked executions and cross-engine spec comparison)"
	run.Assumptions = []string{"Go's map iteration order is over-approximated by all permutations, at the four hooked sites only; unhooked sources are only detected if they vary during the run", "two runs per project start over pre-existing output files that are equivalent but not byte-identical", "generation date comment is skipped by configuration, except for one dated run per project that must differ by exactly that comment line"}
	os.RemoveAll(scratch)
	run.Finish()
}

func sites(pts []point) string {
	c := map[string]int{}
	for _, p := range pts {
		c[fmt.Sprintf("%s/%d", p.Site, p.N)]++
	}
	var l []string
	for k, v := range c {
		l = append(l, fmt.Sprintf("%sx%d", k, v))
	}
	sort.Strings(l)
	return strings.Join(l, " ")
}

func describe(pts []point, choices map[int]int) []string {
	var out []string
	for _, p := range pts {
		if c, ok := choices[p.Idx]; ok && c != 0 {
			out = append(out, fmt.Sprintf("call #%d site=%s n=%d permutation=%d", p.Idx, p.Site, p.N, c))
		}
	}
	return out
}

func uniq(s []string) []string {
	var out []string
	for i, x := range s {
		if i == 0 || x != s[i-1] {
			out = append(out, x)
		}
	}
	return out
}

func tail(s string) string {
	l := strings.Split(strings.TrimSpace(s), "\n")
	if len(l) > 3 {
		l = l[len(l)-3:]
	}
	return strings.Join(l, " | ")
}

func firstDiff(a, b artifacts) string {
	if a.Spec != b.Spec {
		return "spec: " + diffLines(a.Spec, b.Spec)
	}
	if a.Routes != b.Routes {
		return "routes: " + diffLines(a.Routes, b.Routes)
	}
	return fmt.Sprintf("exit %d vs %d", a.Exit, b.Exit)
}

func diffLines(a, b string) string {
	al, bl := strings.Split(a, "\n"), strings.Split(b, "\n")
	for i := 0; i < len(al) && i < len(bl); i++ {
		if al[i] != bl[i] {
			return fmt.Sprintf("line %d: %q vs %q", i+1, trunc(al[i]), trunc(bl[i]))
		}
	}
	return fmt.Sprintf("%d vs %d lines", len(al), len(bl))
}

func trunc(s string) string {
	s = strings.TrimSpace(s)
	if len(s) > 110 {
		return s[:110]
	}
	return s
}

// isGenerator reports whether permutation index v at call idx is an adjacent transposition or the reversal.
func isGenerator(pts []point, idx, v int) bool {
	n := 0
	for _, p := range pts {
		if p.Idx == idx {
			n = p.N
		}
	}
	if n == 0 {
		return false
	}
	id := make([]int, n)
	for i := range id {
		id[i] = i
	}
	for i := 0; i+1 < n; i++ {
		p := append([]int(nil), id...)
		p[i], p[i+1] = p[i+1], p[i]
		if permIndex(p) == v {
			return true
		}
	}
	rev := make([]int, n)
	for i := range rev {
		rev[i] = n - 1 - i
	}
	return permIndex(rev) == v
}
