// Package c04 decides C04 (documented security equals enforced security; the enforce flag leaves no open
// route) by enumerating the full product of method-level, controller-level and default security shapes under
// every enforce/default configuration, running each through the real pipeline, both spec generators and the
// routes generator, and comparing spec `security`, the SecurityCheckList literals of the routes file and the
// accept/reject decision with the effective-security reference model.
package c04

import (
	"fmt"
	"os"
	"sort"
	"strings"
	"time"

	"verif/internal/core"
	"verif/internal/rast"
	"verif/internal/scen"
	"verif/internal/spec"
)

type secShape struct {
	Name string
	Secs []scen.Sec
}

func sec(scheme string, scopes ...string) scen.Sec {
	if scopes == nil {
		scopes = []string{}
	}
	return scen.Sec{Scheme: scheme, Scopes: scopes}
}

var methodShapes = []secShape{
	{"none", nil},
	{"s1[]", []scen.Sec{sec("s1")}},
	{"s1[a]", []scen.Sec{sec("s1", "a")}},
	{"s1[a,b]", []scen.Sec{sec("s1", "a", "b")}},
	{"s2[a]", []scen.Sec{sec("s2", "a")}},
	{"s1[a]|s2[b]", []scen.Sec{sec("s1", "a"), sec("s2", "b")}},
	{"s2[b]|s1[a]", []scen.Sec{sec("s2", "b"), sec("s1", "a")}},
	{"s1[a]|s1[b]", []scen.Sec{sec("s1", "a"), sec("s1", "b")}},
	{"zz[a]", []scen.Sec{sec("zz", "a")}},
	{"s1(no properties)", []scen.Sec{{Scheme: "s1", Scopes: []string{}, NoProps: true}}},
	// scopes as identity providers write them, repeated scopes, three alternatives
	{"s1[read:users,write.all]", []scen.Sec{sec("s1", "read:users", "write.all")}},
	{"s1[a,a]|s2[a]|s1[b]", []scen.Sec{sec("s1", "a", "a"), sec("s2", "a"), sec("s1", "b")}},
	// undeclared names that are near misses of declared ones: other letter case, a prefix, trailing text
	{"S1[a]", []scen.Sec{sec("S1", "a")}},
	{"s1[a]|s[b]", []scen.Sec{sec("s1", "a"), sec("s", "b")}},
	{"s1x[a]", []scen.Sec{sec("s1x", "a")}},
	// scopes with characters that template engines and encoders like to rewrite
	{"s1[pets:read&write,it's <all>]", []scen.Sec{sec("s1", "pets:read&write", "it's <all>")}},
	// the very same alternative written twice
	{"s1[a]|s1[a]", []scen.Sec{sec("s1", "a"), sec("s1", "a")}},
}

var ctlShapes = []secShape{
	{"none", nil},
	{"s1[c]", []scen.Sec{sec("s1", "c")}},
	{"s2[c]|s1[d]", []scen.Sec{sec("s2", "c"), sec("s1", "d")}},
	{"zz[c]", []scen.Sec{sec("zz", "c")}},
	{"s2(no properties)", []scen.Sec{{Scheme: "s2", Scopes: []string{}, NoProps: true}}},
	{"s1[c]|s1[c]|s2[d]", []scen.Sec{sec("s1", "c"), sec("s1", "c"), sec("s2", "d")}},
}

type cfgShape struct {
	Name    string
	Default *scen.Sec
	Enforce bool
}

func cfgShapes() []cfgShape {
	d2 := sec("s2", "d")
	dz := sec("zz", "d")
	d0 := scen.Sec{Scheme: "s2", Scopes: []string{}} // a default without scopes is still a default
	d1 := sec("s1", "a", "b")
	var out []cfgShape
	for _, e := range []bool{false, true} {
		out = append(out, cfgShape{fmt.Sprintf("default=none,enforce=%v", e), nil, e})
		out = append(out, cfgShape{fmt.Sprintf("default=s2[d],enforce=%v", e), &d2, e})
		out = append(out, cfgShape{fmt.Sprintf("default=zz[d],enforce=%v", e), &dz, e})
		out = append(out, cfgShape{fmt.Sprintf("default=s2[],enforce=%v", e), &d0, e})
		out = append(out, cfgShape{fmt.Sprintf("default=s1[a,b],enforce=%v", e), &d1, e})
	}
	return out
}

func render(secs []scen.Sec) [][]string {
	var out [][]string
	for _, s := range secs {
		out = append(out, []string{s.Scheme + "[" + strings.Join(s.Scopes, ",") + "]"})
	}
	return out
}

func effective(m, c []scen.Sec, def *scen.Sec) []scen.Sec {
	if len(m) > 0 {
		return m
	}
	if len(c) > 0 {
		return c
	}
	if def != nil {
		return []scen.Sec{*def}
	}
	return nil
}

func undeclared(secs []scen.Sec) bool {
	for _, s := range secs {
		if s.Scheme != "s1" && s.Scheme != "s2" {
			return true
		}
	}
	return false
}

type caseInfo struct {
	M, C   secShape
	Hidden bool
}

func buildCases() ([]scen.Case, map[string]caseInfo) {
	var cases []scen.Case
	info := map[string]caseInfo{}
	n := 0
	for _, m := range methodShapes {
		for _, c := range ctlShapes {
			for _, hidden := range []bool{false, true} {
				id := fmt.Sprintf("s%04d", n)
				n++
				ctl := scen.Controller{Name: "C" + id, Pkg: id, Prefix: scen.S("/" + id), Tag: scen.S("T" + id), Security: c.Secs}
				op := scen.Method{Name: "Op" + id, Verb: "POST", Route: scen.S("/op"), Security: m.Secs, Hidden: hidden}
				sib := scen.Method{Name: "Sib" + id, Verb: "GET", Route: scen.S("/sib")}
				ctl.Methods = []scen.Method{op, sib}
				if n%2 == 0 {
					ctl.Methods = []scen.Method{sib, op} // declaration order must not matter
				}
				// a warning-level remark on the controller's own annotations changes nothing about its routes' security
				lint := ""
				switch (n / 2) % 3 {
				case 1:
					lint = "duplicated @Tag"
					ctl.Extra = []string{"// @Tag(Again" + id + ")"}
				case 2:
					lint = "properties on @Tag"
					ctl.Tag = scen.S("T" + id + ", { note: \"stray\" }")
				}
				cases = append(cases, scen.Case{ID: id, Unit: scen.Unit{Controllers: []scen.Controller{ctl}},
					Features: map[string]string{"method": m.Name, "controller": c.Name, "hidden": fmt.Sprint(hidden), "controller-lint": lint}, Desc: ctl})
				info[id] = caseInfo{m, c, hidden}
			}
		}
	}
	return cases, info
}

func eq(a, b [][]string) bool {
	if len(a) != len(b) {
		return false
	}
	for i := range a {
		if strings.Join(a[i], "&") != strings.Join(b[i], "&") {
			return false
		}
	}
	return true
}

func Main(tier, replay string) {
	run := core.NewRun("C04", tier)
	scratch := scen.MkScratch("c04")
	defer os.RemoveAll(scratch)
	cases, info := buildCases()
	deadline := core.Deadline(tier, 8*time.Minute, 45*time.Minute)
	var replayID, replayCfg string
	if replay != "" {
		_, v := core.LoadReplay(replay)
		replayID, _ = v.Case.(map[string]any)["id"].(string)
		replayCfg = v.Features["config"]
	}
	accepted, rejected := 0, 0
	for _, cs := range cfgShapes() {
		if replayCfg != "" && cs.Name != replayCfg {
			continue
		}
		if time.Now().After(deadline) {
			run.Cap("deadline reached before configuration " + cs.Name)
			break
		}
		cs := cs
		rn := &scen.Runner{Scratch: scratch, Specs: []string{"3.0.0", "3.1.0"}, Routes: []scen.RoutesJob{{Key: "gin", Engine: "gin"}}, PackSize: 24,
			BaseCfg: func() map[string]any {
				cfg := scen.BaseConfig("gin", "3.0.0", nil)
				scen.Set(cfg, "routesConfig.authorizationConfig.enforceSecurityOnAllRoutes", cs.Enforce)
				if cs.Default != nil {
					scen.Set(cfg, "openapiGeneratorConfig.defaultSecurity", map[string]any{"name": cs.Default.Scheme, "scopes": cs.Default.Scopes})
				}
				return cfg
			}}
		schemesChecked := map[string]bool{}
		handle := func(o scen.Outcome, single bool) {
			res := o.Res
			hard := ""
			if res.Crashed != "" || res.Panic != "" || res.ConfigErr != "" || res.PipelineErr != "" || res.GraphErr != "" || res.ValidateErr != "" || res.InterErr != "" {
				hard = res.FailureSummary()
			}
			docs := map[string]spec.Doc{}
			specErr := ""
			for ver, art := range res.Specs {
				if art.Err != "" || art.Panic != "" {
					specErr = "spec " + ver + ": " + art.Err + art.Panic
					continue
				}
				if d, err := spec.Parse(art.Content); err == nil {
					docs[ver] = d
				}
			}
			var rf *rast.File
			if a, ok := res.Routes["gin"]; ok && a.Content != "" {
				f, err := rast.Parse(a.Content)
				if err != nil {
					run.Report(core.Violation{Oracle: "routes-file-parses", Features: map[string]string{"config": cs.Name}, What: err.Error(), Case: o.Cases[0]})
				}
				rf = f
			}
			for _, c := range o.Cases {
				ci := info[c.ID]
				feat := func(extra ...string) map[string]string {
					f := map[string]string{"config": cs.Name, "single": fmt.Sprint(single)}
					for k, v := range c.Features {
						f[k] = v
					}
					for i := 0; i+1 < len(extra); i += 2 {
						f[extra[i]] = extra[i+1]
					}
					return f
				}
				effOp := effective(ci.M.Secs, ci.C.Secs, cs.Default)
				effSib := effective(nil, ci.C.Secs, cs.Default)
				diags := scen.DiagsFor(res, c)
				diagErr := scen.HasErrorDiag(diags)
				// (1) enforce flag: accepted only if every route (hidden included) has non-empty effective security
				open := len(effOp) == 0 || len(effSib) == 0
				{
					switch {
					case cs.Enforce && open && hard == "" && !diagErr:
						run.Report(core.Violation{Oracle: "enforce-leaves-no-open-route", Features: feat(), What: "enforceSecurityOnAllRoutes=true but a project with a route without effective security was accepted", Case: c})
					case !open && diagErr:
						for _, d := range diags {
							if d.Severity == 1 && d.Code == "receiver-missing-security" {
								run.Report(core.Violation{Oracle: "enforce-rejects-only-open-routes", Features: feat(), What: "every route has effective security yet validation reported: " + d.Message, Case: c})
							}
						}
					case !cs.Enforce && diagErr:
						for _, d := range diags {
							if d.Severity == 1 && d.Code == "receiver-missing-security" {
								run.Report(core.Violation{Oracle: "enforce-rejects-only-open-routes", Features: feat(), What: "enforce flag is off yet validation reported: " + d.Message, Case: c})
							}
						}
					}
					run.AddValidated(1)
				}
				if hard != "" || diagErr {
					if single {
						rejected++
						run.Outcome("rejected:"+cs.Name, 1)
					}
					continue
				}
				// (2) undeclared scheme named by an effective security of a documented route => no spec
				namesUndeclared := (undeclared(effOp) && !ci.Hidden) || undeclared(effSib)
				if single {
					if namesUndeclared && len(docs) > 0 {
						run.Report(core.Violation{Oracle: "undeclared-scheme-yields-no-spec", Features: feat(), What: "a documented route's effective security names a scheme that is not configured, yet a spec was produced", Case: c})
					}
					if !namesUndeclared && !undeclared(effOp) && specErr != "" {
						run.Report(core.Violation{Oracle: "declared-schemes-yield-a-spec", Features: feat(), What: "all effective securities use configured schemes but spec generation failed: " + specErr, Case: c})
					}
					run.AddValidated(1)
					if len(docs) == 2 {
						accepted++
						run.Outcome("accepted:"+cs.Name, 1)
					} else {
						run.Outcome("no-spec:"+cs.Name, 1)
					}
				}
				// (3) documented security == effective alternatives, both versions
				for ver, d := range docs {
					// every declared scheme is declared as configured (type, location, flows and their scopes)
					if k := o.Dir + ver; !schemesChecked[k] {
						schemesChecked[k] = true
						for _, fd := range spec.Validate(d, ver, o.Project.Config) {
							if fd.Rule == "security-schemes-as-configured" {
								run.Report(core.Violation{Oracle: "declared-schemes-as-configured", Features: map[string]string{"version": ver, "config": cs.Name}, What: ver + " " + fd.Where + ": " + fd.What, Case: c})
							}
						}
					}
					found := map[string]bool{}
					for _, op := range d.Ops() {
						if !strings.Contains(op.Path, c.ID) {
							continue
						}
						found[op.OperationID()] = true
						var want [][]string
						if op.OperationID() == "Op"+c.ID {
							want = render(effOp)
						} else {
							want = render(effSib)
						}
						got, _ := op.Security()
						if !eq(got, want) {
							run.Report(core.Violation{Oracle: "documented-security-equals-effective", Features: feat("version", ver), What: fmt.Sprintf("%s %s documents security %v, the effective alternatives are %v", ver, op.Key(), got, want), Case: c})
						}
						for _, alt := range got {
							for _, chk := range alt {
								name := chk[:strings.IndexByte(chk, '[')]
								if _, ok := d.SecuritySchemes()[name]; !ok {
									run.Report(core.Violation{Oracle: "named-scheme-is-declared", Features: feat("version", ver), What: fmt.Sprintf("%s names scheme %q which is not under components.securitySchemes", op.Key(), name), Case: c})
								}
							}
						}
						run.AddValidated(1)
					}
					if !ci.Hidden && !found["Op"+c.ID] || !found["Sib"+c.ID] {
						run.Report(core.Violation{Oracle: "operation-present", Features: feat("version", ver), What: "an expected operation is missing from the document", Case: c})
					}
					ss := d.SecuritySchemes()
					var names []string
					for k := range ss {
						names = append(names, k)
					}
					sort.Strings(names)
					if strings.Join(names, ",") != "s1,s2,s9" {
						run.Report(core.Violation{Oracle: "security-schemes-as-configured", Features: feat("version", ver), What: fmt.Sprintf("components.securitySchemes has %v, configuration declares s1,s2,s9", names), Case: c})
					}
				}
				// (4) enforced security (routes file) == effective alternatives, hidden routes included
				if rf != nil {
					seen := 0
					for _, h := range rf.Handlers {
						if !strings.Contains(h.Path, c.ID) {
							continue
						}
						seen++
						want := render(effSib)
						if strings.HasSuffix(h.Path, "/op") {
							want = render(effOp)
						}
						if !eq(h.Security, want) {
							run.Report(core.Violation{Oracle: "enforced-security-equals-effective", Features: feat(), What: fmt.Sprintf("handler %s %s enforces %v, the effective alternatives are %v", h.Verb, h.Path, h.Security, want), Case: c})
						}
						if len(want) > 0 && !h.AuthFirst {
							run.Report(core.Violation{Oracle: "authorization-precedes-everything", Features: feat(), What: fmt.Sprintf("handler %s %s does not start with the guarded authorize() call", h.Verb, h.Path), Case: c})
						}
						run.AddValidated(1)
					}
					if seen != 2 {
						run.Report(core.Violation{Oracle: "handler-present", Features: feat(), What: fmt.Sprintf("expected 2 handlers for the scenario, routes file has %d", seen), Case: c})
					}
				}
			}
		}
		var packable, singlesOnly []scen.Case
		for _, c := range cases {
			if replayID != "" && c.ID != replayID {
				continue
			}
			ci := info[c.ID]
			if undeclared(ci.M.Secs) || undeclared(ci.C.Secs) {
				singlesOnly = append(singlesOnly, c) // a scheme error fails the whole project: never pack these
			} else {
				packable = append(packable, c)
			}
		}
		if cs.Default != nil && undeclared([]scen.Sec{*cs.Default}) {
			singlesOnly = append(singlesOnly, packable...)
			packable = nil
		}
		if replayID == "" {
			rn.RunPacked(packable, func(o scen.Outcome) { handle(o, false) })
		}
		singles := append([]scen.Case(nil), singlesOnly...)
		if tier == "thorough" || replayID != "" {
			singles = append(singles, packable...)
		} else {
			for i, c := range packable { // quick: every 4th packable scenario is also run alone
				if i%4 == 0 {
					singles = append(singles, c)
				}
			}
		}
		rn.RunSingles(singles, func(o scen.Outcome) { handle(o, true) })
		run.AddTransitions(rn.Projects.Load())
		run.AddStates(int64(len(packable) + len(singlesOnly)))
	}
	run.Set("accepted_single_runs", accepted)
	run.Set("rejected_single_runs", rejected)
	run.Sample(cases[0])
	run.Sample(cases[len(cases)/2])
	run.Bound = fmt.Sprintf("%d method-level x %d controller-level security shapes x hidden on/off (%d scenarios) under %d configurations (default none / declared / undeclared / declared without scopes / declared with two scopes x enforce off/on), both OpenAPI versions + gin routes file", len(methodShapes), len(ctlShapes), len(cases), len(cfgShapes()))
	run.Rule = "state = (scenario, configuration); transition = one run of the real pipeline, spec generators and routes generator over a generated project; validated = comparisons of documented security, SecurityCheckList literals and accept/reject decisions with the effective-security model"
	run.Assumptions = []string{"an undeclared scheme named only by a hidden route or only at a level that is overridden is not judged", "absent `security` and `security: []` both mean no requirement"}
	os.RemoveAll(scratch)
	run.Finish()
}
