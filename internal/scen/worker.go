package scen

import (
	"encoding/json"
	"fmt"
	"os"
	"os/exec"
	"path/filepath"
	"runtime"
	"runtime/debug"
	"strings"
	"sync"
	"sync/atomic"
	"time"

	"github.com/gopher-fleece/gleece/v2/cmd"
	"github.com/gopher-fleece/gleece/v2/core/pipeline"
	"github.com/gopher-fleece/gleece/v2/core/validators/diagnostics"
	"github.com/gopher-fleece/gleece/v2/definitions"
	"github.com/gopher-fleece/gleece/v2/generator/routes"
	"github.com/gopher-fleece/gleece/v2/generator/swagen"
	"github.com/gopher-fleece/gleece/v2/infrastructure/logger"

	"verif/internal/core"
)

// RoutesJob asks for one routes-file generation.
type RoutesJob struct {
	Key     string `json:"key"`
	Engine  string `json:"engine"`
	Out     string `json:"out"` // path relative to the project dir
	EnumVal bool   `json:"enumVal"`
	TopEnum bool   `json:"topEnum"`
	RespVal bool   `json:"respVal"`
	Auth    string `json:"auth,omitempty"` // authFileFullPackageName override (the callback's signature is engine specific)
	// template customisation of this generation (extension / partial name -> file path relative to the project)
	Extensions map[string]string `json:"extensions,omitempty"`
	Overrides  map[string]string `json:"overrides,omitempty"`
}

// Job is one run of the real pipeline over one project directory in a fresh process.
type Job struct {
	Dir          string      `json:"dir"`
	Config       string      `json:"config"`
	Specs        []string    `json:"specs"`  // OpenAPI versions to generate
	Routes       []RoutesJob `json:"routes"` // routes generations
	Runs         int         `json:"runs"`   // C19: extra Run() calls on the same pipeline, each compared with the first
	Timeout      int         `json:"timeout_s"`
	KeepGoin     bool        `json:"keep_going"`          // generate artifacts even when validation reported errors (never used for acceptance)
	Histories    [][]string  `json:"histories,omitempty"` // C19: operation histories, each on its own fresh pipeline value
	ValidateOnly bool        `json:"validate_only"`       // stop after Validate (no intermediate metadata, no artifacts)
}

type Diag struct {
	Entity   string `json:"entity"` // "Controller X/Receiver Y"
	Code     string `json:"code"`
	Severity int    `json:"severity"`
	Message  string `json:"message"`
	File     string `json:"file"`
	SL       int    `json:"sl"`
	SC       int    `json:"sc"`
	EL       int    `json:"el"`
	EC       int    `json:"ec"`
}

type Artifact struct {
	Content string `json:"content,omitempty"`
	Err     string `json:"err,omitempty"`
	Panic   string `json:"panic,omitempty"`
}

type Result struct {
	ConfigErr   string              `json:"config_err,omitempty"`
	PipelineErr string              `json:"pipeline_err,omitempty"`
	GraphErr    string              `json:"graph_err,omitempty"`
	ValidateErr string              `json:"validate_err,omitempty"`
	InterErr    string              `json:"intermediate_err,omitempty"`
	Panic       string              `json:"panic,omitempty"`
	PanicStage  string              `json:"panic_stage,omitempty"`
	Diags       []Diag              `json:"diags"`
	ErrorDiags  int                 `json:"error_diags"`
	ErrorText   string              `json:"error_text,omitempty"` // what Run() would return for the error diagnostics
	Specs       map[string]Artifact `json:"specs"`
	Routes      map[string]Artifact `json:"routes"`
	Controllers int                 `json:"controllers"`
	RouteCount  int                 `json:"route_count"`
	RunDiffs    []string            `json:"run_diffs,omitempty"`
	Histories   []HistResult        `json:"histories,omitempty"`
	Crashed     string              `json:"crashed,omitempty"` // worker process died / timed out (set by the parent)
	WallMs      int64               `json:"wall_ms"`
}

// Accepted means: analysis and validation passed (no hard error, no error-severity diagnostic, no panic).
func (r *Result) Accepted() bool {
	return r.Crashed == "" && r.Panic == "" && r.ConfigErr == "" && r.PipelineErr == "" && r.GraphErr == "" && r.ValidateErr == "" && r.InterErr == "" && r.ErrorDiags == 0
}

// FailureSummary is a one-line description of why a project was not accepted.
func (r *Result) FailureSummary() string {
	switch {
	case r.Crashed != "":
		return "crashed: " + r.Crashed
	case r.Panic != "":
		return "panic in " + r.PanicStage + ": " + firstLine(r.Panic)
	case r.ConfigErr != "":
		return "config: " + firstLine(r.ConfigErr)
	case r.PipelineErr != "":
		return "pipeline: " + firstLine(r.PipelineErr)
	case r.GraphErr != "":
		return "graph: " + firstLine(r.GraphErr)
	case r.ValidateErr != "":
		return "validate: " + firstLine(r.ValidateErr)
	case r.ErrorDiags > 0:
		var codes []string
		for _, d := range r.Diags {
			if d.Severity == 1 {
				codes = append(codes, d.Code)
			}
		}
		return "diagnostics: " + strings.Join(codes, ",")
	case r.InterErr != "":
		return "intermediate: " + firstLine(r.InterErr)
	}
	return ""
}

func firstLine(s string) string {
	if i := strings.IndexByte(s, '\n'); i >= 0 {
		s = s[:i]
	}
	if len(s) > 300 {
		s = s[:300]
	}
	return s
}

func flatten(prefix string, e diagnostics.EntityDiagnostic, out *[]Diag) {
	name := prefix + e.EntityKind + " " + e.EntityName
	for _, d := range e.Diagnostics {
		*out = append(*out, Diag{Entity: name, Code: d.Code, Severity: int(d.Severity), Message: d.Message, File: d.FilePath,
			SL: d.Range.StartLine, SC: d.Range.StartCol, EL: d.Range.EndLine, EC: d.Range.EndCol})
	}
	for _, c := range e.Children {
		if c != nil {
			flatten(name+"/", *c, out)
		}
	}
}

func stage(res *Result, name string, f func()) (ok bool) {
	defer func() {
		if r := recover(); r != nil {
			res.Panic = fmt.Sprintf("%v\n%s", r, debug.Stack())
			res.PanicStage = name
			ok = false
		}
	}()
	f()
	return true
}

func cloneMeta(m pipeline.GleeceFlattenedMetadata) pipeline.GleeceFlattenedMetadata {
	b, err := json.Marshal(m)
	if err != nil {
		panic("cannot marshal metadata: " + err.Error())
	}
	var out pipeline.GleeceFlattenedMetadata
	if err := json.Unmarshal(b, &out); err != nil {
		panic("cannot unmarshal metadata: " + err.Error())
	}
	return out
}

// WorkerMain runs one job in this process (invoked as `vcheck worker <job.json> <result.json>`).
func WorkerMain(jobPath, resPath string) {
	b, err := os.ReadFile(jobPath)
	if err != nil {
		fmt.Println("worker: cannot read job:", err)
		os.Exit(3)
	}
	var job Job
	if err := json.Unmarshal(b, &job); err != nil {
		fmt.Println("worker: bad job:", err)
		os.Exit(3)
	}
	start := time.Now()
	res := runJob(job)
	res.WallMs = time.Since(start).Milliseconds()
	out, _ := json.Marshal(res)
	if err := os.WriteFile(resPath, out, 0o644); err != nil {
		fmt.Println("worker: cannot write result:", err)
		os.Exit(3)
	}
}

func runJob(job Job) *Result {
	res := &Result{Specs: map[string]Artifact{}, Routes: map[string]Artifact{}, Diags: []Diag{}}
	if err := os.Chdir(job.Dir); err != nil {
		res.ConfigErr = "chdir: " + err.Error()
		return res
	}
	logger.SetLogLevel(logger.LogLevelNone)
	var cfg *definitions.GleeceConfig
	if !stage(res, "config", func() {
		c, err := cmd.LoadGleeceConfig(job.Config)
		if err != nil {
			res.ConfigErr = err.Error()
		}
		cfg = c
	}) || res.ConfigErr != "" {
		return res
	}
	if len(job.Histories) > 0 {
		for _, h := range job.Histories {
			res.Histories = append(res.Histories, runHistory(cfg, h))
		}
		return res
	}
	var pipe pipeline.GleecePipeline
	if !stage(res, "pipeline", func() {
		p, err := pipeline.NewGleecePipeline(cfg)
		if err != nil {
			res.PipelineErr = err.Error()
		}
		pipe = p
	}) || res.PipelineErr != "" {
		return res
	}
	if !stage(res, "graph", func() {
		if err := pipe.GenerateGraph(); err != nil {
			res.GraphErr = err.Error()
		}
	}) || res.GraphErr != "" {
		return res
	}
	var diags []diagnostics.EntityDiagnostic
	if !stage(res, "validate", func() {
		d, err := pipe.Validate()
		if err != nil {
			res.ValidateErr = err.Error()
		}
		diags = d
	}) {
		return res
	}
	for _, e := range diags {
		flatten("", e, &res.Diags)
	}
	for _, d := range res.Diags {
		if d.Severity == int(diagnostics.DiagnosticError) {
			res.ErrorDiags++
		}
	}
	if res.ErrorDiags > 0 {
		stage(res, "error-text", func() {
			ents := diagnostics.GetDiagnosticsWithSeverity(diags, []diagnostics.DiagnosticSeverity{diagnostics.DiagnosticError})
			res.ErrorText = diagnostics.DiagnosticsToError(ents).Error()
		})
	}
	if res.ValidateErr != "" || (res.ErrorDiags > 0 && !job.KeepGoin) || job.ValidateOnly {
		return res
	}
	var meta pipeline.GleeceFlattenedMetadata
	if !stage(res, "intermediate", func() {
		m, err := pipe.GenerateIntermediate()
		if err != nil {
			res.InterErr = err.Error()
		}
		meta = m
	}) || res.InterErr != "" {
		return res
	}
	res.Controllers = len(meta.Flat)
	for _, c := range meta.Flat {
		res.RouteCount += len(c.Routes)
	}
	base, _ := json.Marshal(meta)
	for i := 0; i < job.Runs; i++ {
		stage(res, "rerun", func() {
			m, err := pipe.Run()
			if err != nil {
				res.RunDiffs = append(res.RunDiffs, fmt.Sprintf("run %d failed: %v", i+2, err))
				return
			}
			again, _ := json.Marshal(m)
			if string(again) != string(base) {
				res.RunDiffs = append(res.RunDiffs, fmt.Sprintf("run %d differs from the first analysis", i+2))
			}
		})
	}
	for _, ver := range job.Specs {
		var art Artifact
		r2 := &Result{}
		stage(r2, "spec "+ver, func() {
			m := cloneMeta(meta)
			c := *cfg
			c.OpenAPIGeneratorConfig.OpenAPI = ver
			out, err := swagen.GenerateSpec(&c.OpenAPIGeneratorConfig, m.Flat, &m.Models, m.PlainErrorPresent)
			if err != nil {
				art.Err = err.Error()
				return
			}
			art.Content = string(out)
		})
		art.Panic = r2.Panic
		res.Specs[ver] = art
	}
	for _, rj := range job.Routes {
		var art Artifact
		r2 := &Result{}
		stage(r2, "routes "+rj.Engine, func() {
			m := cloneMeta(meta)
			c := *cfg
			c.RoutesConfig.Engine = definitions.RoutingEngineType(rj.Engine)
			c.RoutesConfig.OutputPath = rj.Out
			if rj.Auth != "" {
				c.RoutesConfig.AuthorizationConfig.AuthFileFullPackageName = rj.Auth
			}
			c.RoutesConfig.SkipGenerateDateComment = true
			c.RoutesConfig.TemplateExtensions, c.RoutesConfig.TemplateOverrides = rj.Extensions, rj.Overrides
			c.RoutesConfig.ValidateResponsePayload = rj.RespVal
			c.ExperimentalConfig.GenerateEnumValidator = rj.EnumVal
			c.ExperimentalConfig.ValidateTopLevelOnlyEnum = rj.TopEnum
			os.Remove(rj.Out)
			if err := routes.GenerateRoutes(&c, m); err != nil {
				art.Err = err.Error()
				return
			}
			b, err := os.ReadFile(rj.Out)
			if err != nil {
				art.Err = "routes file not written: " + err.Error()
				return
			}
			art.Content = string(b)
		})
		art.Panic = r2.Panic
		res.Routes[rj.Key] = art
	}
	return res
}

// ---- parent side ---------------------------------------------------------------------------------------

var selfExe = func() string {
	p, err := os.Executable()
	if err != nil {
		return os.Args[0]
	}
	return p
}()

// RunJob executes the job in a fresh worker subprocess and returns its result.
var jobSeq atomic.Int64

func RunJob(job Job) *Result {
	// several jobs may run concurrently in one project directory (C19 shards its histories): every job gets files of its own
	tag := fmt.Sprintf("%d-%d", os.Getpid(), jobSeq.Add(1))
	jobPath := filepath.Join(job.Dir, ".verif-job-"+tag+".json")
	resPath := filepath.Join(job.Dir, ".verif-result-"+tag+".json")
	logPath := filepath.Join(job.Dir, ".verif-worker-"+tag+".log")
	defer func() {
		os.Remove(jobPath)
		os.Remove(resPath)
		os.Remove(logPath)
	}()
	b, _ := json.Marshal(job)
	if err := os.WriteFile(jobPath, b, 0o644); err != nil {
		core.Harness("cannot write job: %v", err)
	}
	os.Remove(resPath)
	timeout := time.Duration(job.Timeout) * time.Second
	if timeout == 0 {
		timeout = 180 * time.Second
	}
	c := exec.Command(selfExe, "worker", jobPath, resPath)
	c.Dir = job.Dir
	c.Env = append(os.Environ(), "GOFLAGS=-mod=mod", "GOPROXY=off")
	logf, _ := os.Create(logPath)
	c.Stdout, c.Stderr = logf, logf
	done := make(chan error, 1)
	if err := c.Start(); err != nil {
		core.Harness("cannot start worker: %v", err)
	}
	go func() { done <- c.Wait() }()
	var werr error
	timedOut := false
	select {
	case werr = <-done:
	case <-time.After(timeout):
		c.Process.Kill()
		<-done
		timedOut = true
	}
	logf.Close()
	rb, rerr := os.ReadFile(resPath)
	if rerr != nil {
		logb, _ := os.ReadFile(logPath)
		tail := string(logb)
		if len(tail) > 3000 {
			tail = tail[len(tail)-3000:]
		}
		r := &Result{Specs: map[string]Artifact{}, Routes: map[string]Artifact{}}
		if timedOut {
			r.Crashed = fmt.Sprintf("timeout after %s", timeout)
		} else {
			r.Crashed = fmt.Sprintf("worker exited (%v) without a result: %s", werr, tail)
		}
		return r
	}
	var res Result
	if err := json.Unmarshal(rb, &res); err != nil {
		core.Harness("worker result does not parse: %v", err)
	}
	return &res
}

// Pool runs jobs over n worker slots; fn is called with each index.
func Pool(n int, count int, fn func(i int)) {
	if n <= 0 {
		n = runtime.NumCPU()
	}
	var wg sync.WaitGroup
	ch := make(chan int)
	for w := 0; w < n; w++ {
		wg.Add(1)
		go func() {
			defer wg.Done()
			for i := range ch {
				fn(i)
			}
		}()
	}
	for i := 0; i < count; i++ {
		ch <- i
	}
	close(ch)
	wg.Wait()
}

// MkScratch creates a scratch directory for one check run; the caller removes it.
func MkScratch(tag string) string {
	d, err := os.MkdirTemp(ScratchRoot(), "verif-"+tag+"-")
	if err != nil {
		core.Harness("cannot create scratch dir: %v", err)
	}
	return d
}
