#!/usr/bin/env python3
# seedstore.py <worktree> <dir-name> <property> <strengthened:0|1> <breaks> <needs> <caught_by>
import sys,os,shutil,json,subprocess
wt,name,prop,strn,breaks,needs,caught=sys.argv[1:8]
d=f'/verif/seeded/{name}'
shutil.rmtree(d,ignore_errors=True); os.makedirs(d)
shutil.copy(f'{wt}/seed.patch',f'{d}/patch.diff')
shutil.copytree(f'{wt}/seed_demo',f'{d}/demo',ignore=shutil.ignore_patterns('*.bin','routes','*.gleece.go','dist','out','*.exe'))
base=subprocess.check_output(['git','-C','/repo','rev-parse','--short','HEAD'],text=True).strip()
json.dump({"property":prop,"round":int(os.environ.get("SEED_ROUND","2")),"breaks":breaks,"needs_to_manifest":needs,"caught_by":caught,"check_strengthened_after_miss":strn=='1',"base_commit":base,
 "confirmed":{"go build ./...":"ok","existing suite with the change":"37 ok, only the 2 baseline failures","demonstration":"fails with the change, passes without it (tools/seedverify.sh)",
 "checks":f"git -C /repo apply seeded/{name}/patch.diff; ./vc <check> quick -> exit 1 with VIOLATION lines; git -C /repo checkout -- . (tools/seedcheck.sh)"}},open(f'{d}/meta.json','w'),indent=1)
print('stored',d, subprocess.check_output(['du','-sh',d],text=True).split()[0])
