// Package rt is the runtime seam: it compiles the five generated routers of a project together with
// instrumented controllers, an instrumented authorization callback and a request driver into one binary, runs a
// list of requests against every engine in-process and returns status, body and the event log of each.
package rt

import (
	"encoding/json"
	"fmt"
	"os"
	"os/exec"
	"path/filepath"
	"strings"
	"time"

	"verif/internal/core"
	"verif/internal/scen"
)

var Engines = []string{"gin", "echo", "mux", "chi", "fiber"}

// Request is one HTTP request to replay against every engine.
type Request struct {
	ID          string            `json:"id"`
	Verb        string            `json:"verb"`
	URL         string            `json:"url"` // path and raw query, already encoded by the client side
	Headers     map[string]string `json:"headers,omitempty"`
	Body        string            `json:"body,omitempty"`
	ContentType string            `json:"content_type,omitempty"`
	Verdicts    []int             `json:"verdicts,omitempty"` // authorization verdict per callback invocation: 0 approve, 1 refuse 401, 2 refuse 403 with a custom payload
	// CtxState delivers the request with a context that is already "cancelled" or past its "deadline" (a client
	// that hung up, an expired timeout middleware); "" = live. Not applied to fiber (app.Test copies the request).
	CtxState string `json:"ctx_state,omitempty"`
	// UnknownLength sends the body through a reader whose size the transport cannot know (Content-Length -1, as
	// with chunked transfer or HTTP/2 streams).
	UnknownLength bool `json:"unknown_length,omitempty"`
}

// Response is what one engine answered.
type Response struct {
	Status int      `json:"status"`
	Body   string   `json:"body"`
	Events []string `json:"events"` // AUTH scheme[scopes]=verdict, CALL Ctl.Method(args JSON) ctx=...
	Panic  string   `json:"panic,omitempty"`
}

// Run is the outcome of one pack.
type Run struct {
	Dir      string
	Worker   *scen.Result
	Routes   map[string]string // engine -> generated file
	BuildErr string
	Results  map[string]map[string]Response // engine -> request id -> response
	RegErr   map[string]string              // engine -> panic while registering routes
}

const recSrc = `package rec

import (
	"encoding/json"
	"fmt"
	"strings"
	"sync"
)

type ctxKey string

const Key ctxKey = "verif-auth"

var (
	mu       sync.Mutex
	Events   []string
	verdicts []int
	vi       int
)

func Reset(v []int) {
	mu.Lock()
	defer mu.Unlock()
	Events = nil
	verdicts = v
	vi = 0
}

func Snapshot() []string {
	mu.Lock()
	defer mu.Unlock()
	return append([]string(nil), Events...)
}

// Auth records one invocation of the authorization callback and returns the scripted verdict.
func Auth(scheme string, scopes []string) int {
	mu.Lock()
	defer mu.Unlock()
	v := 0
	if vi < len(verdicts) {
		v = verdicts[vi]
	}
	vi++
	Events = append(Events, fmt.Sprintf("AUTH %s[%s]=%d", scheme, strings.Join(scopes, ","), v))
	return v
}

// Call records one controller invocation with its arguments.
func Call(name string, ctxState string, args ...any) {
	b, err := json.Marshal(args)
	if err != nil {
		b = []byte(fmt.Sprintf("%q", err.Error()))
	}
	mu.Lock()
	defer mu.Unlock()
	Events = append(Events, "CALL "+name+" ctx="+ctxState+" args="+string(b))
}
`

func authSrc(engine string) string {
	imp, typ := "", ""
	switch engine {
	case "gin":
		imp, typ = `"github.com/gin-gonic/gin"`, "*gin.Context"
	case "echo":
		imp, typ = `"github.com/labstack/echo/v4"`, "echo.Context"
	case "fiber":
		imp, typ = `"github.com/gofiber/fiber/v2"`, "*fiber.Ctx"
	default:
		imp, typ = `"net/http"`, "*http.Request"
	}
	return `package auth` + engine + `

import (
	"context"

	` + imp + `
	"github.com/gopher-fleece/runtime"

	"scn/rec"
)

// errRefused is a sentinel, as user code commonly writes it: every plain refusal returns this same pointer
// (the refusal with a payload below is allocated per call, so both habits are exercised).
var errRefused = &runtime.SecurityError{Message: "refused", StatusCode: runtime.StatusUnauthorized}

func GleeceRequestAuthorization(ctx context.Context, _ ` + typ + `, check runtime.SecurityCheck) (context.Context, *runtime.SecurityError) {
	switch rec.Auth(check.SchemaName, check.Scopes) {
	case 0:
		return context.WithValue(ctx, rec.Key, "approved"), nil
	case 1:
		return ctx, errRefused
	default:
		return ctx, &runtime.SecurityError{Message: "refused with payload", StatusCode: runtime.StatusForbidden,
			CustomError: &runtime.CustomError{Payload: map[string]any{"custom": "payload", "scheme": check.SchemaName}}}
	}
}
`
}

const mainSrc = `package main

import (
	"bytes"
	"context"
	"time"
	"encoding/json"
	"fmt"
	"io"
	"net/http"
	"net/http/httptest"
	"os"

	"github.com/gin-gonic/gin"
	"github.com/go-chi/chi/v5"
	"github.com/gofiber/fiber/v2"
	"github.com/gorilla/mux"
	"github.com/labstack/echo/v4"

	"scn/rec"
	rchi "scn/routes/chi"
	recho "scn/routes/echo"
	rfiber "scn/routes/fiber"
	rgin "scn/routes/gin"
	rmux "scn/routes/mux"
)

type Request struct {
	ID          string            ` + "`json:\"id\"`" + `
	Verb        string            ` + "`json:\"verb\"`" + `
	URL         string            ` + "`json:\"url\"`" + `
	Headers     map[string]string ` + "`json:\"headers\"`" + `
	Body        string            ` + "`json:\"body\"`" + `
	ContentType string            ` + "`json:\"content_type\"`" + `
	Verdicts    []int             ` + "`json:\"verdicts\"`" + `
	CtxState    string            ` + "`json:\"ctx_state\"`" + `
	UnknownLength bool            ` + "`json:\"unknown_length\"`" + `
}

type Response struct {
	Status int      ` + "`json:\"status\"`" + `
	Body   string   ` + "`json:\"body\"`" + `
	Events []string ` + "`json:\"events\"`" + `
	Panic  string   ` + "`json:\"panic,omitempty\"`" + `
}

type server func(*http.Request) (int, string)

func viaHandler(h http.Handler) server {
	return func(r *http.Request) (int, string) {
		w := httptest.NewRecorder()
		h.ServeHTTP(w, r)
		return w.Code, w.Body.String()
	}
}

func build(engine string) (srv server, regErr string) {
	defer func() {
		if r := recover(); r != nil {
			regErr = fmt.Sprint(r)
		}
	}()
	switch engine {
	case "gin":
		gin.SetMode(gin.ReleaseMode)
		e := gin.New()
		e.RedirectTrailingSlash = false
		e.RedirectFixedPath = false
		e.HandleMethodNotAllowed = false
		rgin.RegisterRoutes(e)
		return viaHandler(e), ""
	case "echo":
		e := echo.New()
		e.HideBanner = true
		recho.RegisterRoutes(e)
		return viaHandler(e), ""
	case "mux":
		r := mux.NewRouter()
		rmux.RegisterRoutes(r)
		return viaHandler(r), ""
	case "chi":
		r := chi.NewRouter()
		rchi.RegisterRoutes(r)
		return viaHandler(r), ""
	case "fiber":
		app := fiber.New(fiber.Config{StrictRouting: true, CaseSensitive: true, DisableStartupMessage: true})
		rfiber.RegisterRoutes(app)
		return func(r *http.Request) (int, string) {
			if r.ContentLength < 0 && r.Body != nil {
				// app.Test serialises the request itself and cannot stream a body of unknown length: give it the bytes
				b, _ := io.ReadAll(r.Body)
				r.Body = io.NopCloser(bytes.NewReader(b))
				r.ContentLength = int64(len(b))
			}
			resp, err := app.Test(r, -1)
			if err != nil {
				return -1, "fiber test error: " + err.Error()
			}
			b, _ := io.ReadAll(resp.Body)
			return resp.StatusCode, string(b)
		}, ""
	}
	return nil, "unknown engine"
}

func one(srv server, rq Request) (resp Response) {
	defer func() {
		if r := recover(); r != nil {
			resp.Panic = fmt.Sprint(r)
			resp.Events = rec.Snapshot()
		}
	}()
	rec.Reset(rq.Verdicts)
	var body io.Reader
	if rq.Body != "" || rq.ContentType != "" {
		body = bytes.NewBufferString(rq.Body)
		if rq.UnknownLength {
			body = struct{ io.Reader }{body} // hides the concrete type: the request's ContentLength becomes -1
		}
	}
	req := httptest.NewRequest(rq.Verb, rq.URL, body)
	if rq.ContentType != "" {
		req.Header.Set("Content-Type", rq.ContentType)
	}
	for k, v := range rq.Headers {
		req.Header.Set(k, v)
	}
	switch rq.CtxState {
	case "cancelled":
		ctx, cancel := context.WithCancel(req.Context())
		cancel()
		req = req.WithContext(ctx)
	case "deadline":
		ctx, cancel := context.WithDeadline(req.Context(), time.Unix(1, 0))
		defer cancel()
		req = req.WithContext(ctx)
	}
	code, b := srv(req)
	return Response{Status: code, Body: b, Events: rec.Snapshot()}
}

func main() {
	var reqs []Request
	b, err := os.ReadFile(os.Args[1])
	if err != nil {
		panic(err)
	}
	if err := json.Unmarshal(b, &reqs); err != nil {
		panic(err)
	}
	out := map[string]any{}
	regErrs := map[string]string{}
	for _, engine := range []string{"gin", "echo", "mux", "chi", "fiber"} {
		srv, regErr := build(engine)
		if regErr != "" {
			regErrs[engine] = regErr
			continue
		}
		res := map[string]Response{}
		for _, rq := range reqs {
			res[rq.ID] = one(srv, rq)
		}
		out[engine] = res
	}
	out["_registration_errors"] = regErrs
	ob, _ := json.Marshal(out)
	os.WriteFile(os.Args[2], ob, 0o644)
}
`

// Flags are the generator switches under which the routers are produced.
type Flags struct {
	EnumVal, TopEnum, RespVal bool
}

// RunPack generates, compiles and drives one project. units carry instrumented method bodies (see CallBody).
func RunPack(dir string, units []scen.Unit, cfgPatch map[string]any, flags Flags, reqs []Request) *Run {
	run := &Run{Dir: dir, Routes: map[string]string{}, Results: map[string]map[string]Response{}, RegErr: map[string]string{}}
	p := scen.NewProject()
	globs := scen.Render(p, units)
	p.Files["rec/rec.go"] = recSrc
	for _, e := range Engines {
		p.Files["auth"+e+"/auth.go"] = authSrc(e)
	}
	p.Files["main.go"] = mainSrc
	cfg := scen.BaseConfig("gin", "3.0.0", globs)
	for k, v := range cfgPatch {
		scen.Set(cfg, k, v)
	}
	p.Config = cfg
	if err := p.Write(dir); err != nil {
		core.Harness("cannot write project: %v", err)
	}
	var rjs []scen.RoutesJob
	for _, e := range Engines {
		rjs = append(rjs, scen.RoutesJob{Key: e, Engine: e, Out: "./routes/" + e + "/gleece.routes.go", Auth: scen.ModulePath + "/auth" + e,
			EnumVal: flags.EnumVal, TopEnum: flags.TopEnum, RespVal: flags.RespVal})
	}
	run.Worker = scen.RunJob(scen.Job{Dir: dir, Config: "./gleece.config.json", Routes: rjs})
	if !run.Worker.Accepted() {
		return run
	}
	for _, e := range Engines {
		a := run.Worker.Routes[e]
		if a.Err != "" || a.Panic != "" {
			return run
		}
		run.Routes[e] = a.Content
	}
	// compile with the real compiler
	c := exec.Command("go", "build", "-gcflags=-e", "-o", "rtbin", ".")
	c.Dir = dir
	c.Env = append(os.Environ(), "GOFLAGS=-mod=mod", "GOPROXY=off")
	out, err := c.CombinedOutput()
	if err != nil {
		run.BuildErr = string(out)
		if run.BuildErr == "" {
			run.BuildErr = err.Error()
		}
		return run
	}
	rb, _ := json.Marshal(reqs)
	os.WriteFile(filepath.Join(dir, "requests.json"), rb, 0o644)
	x := exec.Command("./rtbin", "requests.json", "results.json")
	x.Dir = dir
	done := make(chan error, 1)
	var xout []byte
	go func() { var e error; xout, e = x.CombinedOutput(); done <- e }()
	select {
	case err = <-done:
	case <-time.After(10 * time.Minute):
		x.Process.Kill()
		err = fmt.Errorf("request driver timed out")
	}
	resb, rerr := os.ReadFile(filepath.Join(dir, "results.json"))
	if rerr != nil {
		tail := string(xout)
		if len(tail) > 2000 {
			tail = tail[len(tail)-2000:]
		}
		run.BuildErr = fmt.Sprintf("request driver failed (%v): %s", err, tail)
		return run
	}
	var raw map[string]json.RawMessage
	if err := json.Unmarshal(resb, &raw); err != nil {
		core.Harness("driver results do not parse: %v", err)
	}
	for _, e := range Engines {
		if r, ok := raw[e]; ok {
			m := map[string]Response{}
			json.Unmarshal(r, &m)
			run.Results[e] = m
		}
	}
	json.Unmarshal(raw["_registration_errors"], &run.RegErr)
	return run
}

// CallBody renders an instrumented method body: it records the call and returns the given expressions.
func CallBody(name string, params []scen.Param, returns string) string {
	var args []string
	ctxState := `"none"`
	for _, p := range params {
		if p.Type == "context.Context" {
			ctxState = fmt.Sprintf(`fmt.Sprint(%s.Value(rec.Key))`, p.Name)
			continue
		}
		args = append(args, p.Name)
	}
	call := fmt.Sprintf("\trec.Call(%q, %s", name, ctxState)
	if len(args) > 0 {
		call += ", " + strings.Join(args, ", ")
	}
	call += ")\n"
	return call + "\treturn " + returns + "\n"
}

// RtImports are the imports an instrumented controller package needs.
var RtImports = []string{"context", "fmt", scen.ModulePath + "/rec"}

// CaseRun is the share of one pack run that belongs to one scenario.
type CaseRun struct {
	Case scen.Case
	Run  *Run // shared by every scenario of the same (possibly bisected) pack
	Reqs []Request
	Solo bool // the scenario ended up alone in its project
	// Interaction: the scenario is part of a group that fails although every half of it succeeds on its own
	// (the failure needs several scenarios together); Run is the failing group's run, Group its members.
	Interaction bool
	Group       []string
}

// Failed reports whether the pack produced no servable binary (rejected, not compilable, registration panic).
func (r *Run) Failed() bool {
	return !r.Worker.Accepted() || r.BuildErr != "" || len(r.Routes) < len(Engines) || len(r.RegErr) > 0
}

// RunCases packs the scenarios, generates/compiles/drives each pack (bisecting failing packs down to single
// scenarios) and returns one CaseRun per scenario. Scenarios not run because of the deadline are returned with Run == nil.
func RunCases(scratch string, cases []scen.Case, packSize, parallel int, instrument func(scen.Case) scen.Unit, reqsFor func(scen.Case) []Request,
	cfgPatch map[string]any, flags Flags, deadline time.Time) []CaseRun {
	var packs [][]scen.Case
	for i := 0; i < len(cases); i += packSize {
		j := i + packSize
		if j > len(cases) {
			j = len(cases)
		}
		packs = append(packs, cases[i:j])
	}
	var runPack func(cs []scen.Case, tag string) []CaseRun
	runPack = func(cs []scen.Case, tag string) []CaseRun {
		var units []scen.Unit
		var reqs []Request
		per := make([][]Request, len(cs))
		for i, c := range cs {
			units = append(units, instrument(c))
			if reqsFor != nil {
				per[i] = reqsFor(c)
				reqs = append(reqs, per[i]...)
			}
		}
		dir := filepath.Join(scratch, tag)
		r := RunPack(dir, units, cfgPatch, flags, reqs)
		os.RemoveAll(dir)
		if r.Failed() && len(cs) > 1 {
			mid := len(cs) / 2
			sub := append(runPack(cs[:mid], tag+"a"), runPack(cs[mid:], tag+"b")...)
			anyFailed := false
			for _, s := range sub {
				if s.Run != nil && s.Run.Failed() {
					anyFailed = true
				}
			}
			if anyFailed {
				return sub
			}
			// neither half fails alone: the failure is an interaction between scenarios of this group
			var ids []string
			for _, c := range cs {
				ids = append(ids, c.ID)
			}
			var out []CaseRun
			for i, c := range cs {
				out = append(out, CaseRun{Case: c, Run: r, Reqs: per[i], Interaction: true, Group: ids})
			}
			return out
		}
		var out []CaseRun
		for i, c := range cs {
			out = append(out, CaseRun{Case: c, Run: r, Reqs: per[i], Solo: len(cs) == 1})
		}
		return out
	}
	results := make([][]CaseRun, len(packs))
	scen.Pool(parallel, len(packs), func(i int) {
		if time.Now().After(deadline) {
			for _, c := range packs[i] {
				results[i] = append(results[i], CaseRun{Case: c})
			}
			return
		}
		results[i] = runPack(packs[i], fmt.Sprintf("pack%04d", i))
	})
	var out []CaseRun
	for _, r := range results {
		out = append(out, r...)
	}
	return out
}

// Calls extracts the CALL events ("Ctl.Method" and raw args JSON) and AUTH events of a response.
func (r Response) Calls() (names []string, args []string, auths []string) {
	for _, ev := range r.Events {
		if strings.HasPrefix(ev, "CALL ") {
			f := strings.SplitN(ev, " ", 4)
			names = append(names, f[1])
			if len(f) == 4 {
				args = append(args, strings.TrimPrefix(f[3], "args="))
			} else {
				args = append(args, "")
			}
		}
		if strings.HasPrefix(ev, "AUTH ") {
			auths = append(auths, strings.TrimPrefix(ev, "AUTH "))
		}
	}
	return
}

// CtxState returns the ctx=... marker of the first CALL event.
func (r Response) CtxState() string {
	for _, ev := range r.Events {
		if strings.HasPrefix(ev, "CALL ") {
			for _, f := range strings.Fields(ev) {
				if strings.HasPrefix(f, "ctx=") {
					return strings.TrimPrefix(f, "ctx=")
				}
			}
		}
	}
	return ""
}
