package scen

import (
	"bytes"
	"os"
	"os/exec"
	"path/filepath"
	"strings"
	"syscall"
	"time"

	"verif/internal/core"
)

// CLIResult is what one run of the real gleece binary produced.
type CLIResult struct {
	Exit     int               `json:"exit"`
	Output   string            `json:"output"` // stdout+stderr
	Files    map[string]string `json:"-"`      // files under dist/ after the run (relative path -> content)
	Modes    map[string]os.FileMode
	TimedOut bool  `json:"timed_out"`
	WallMs   int64 `json:"wall_ms"`
}

// CLIPath returns the real CLI binary built by ./vc from /repo's working tree (build tag verif: hook sites
// pinned to canonical order) or, with plain=true, the untagged one.
func CLIPath(plain bool) string {
	name := "gleece"
	if plain {
		name = "gleece-plain"
	}
	p := filepath.Join(core.Root(), "bin", name)
	if _, err := os.Stat(p); err != nil {
		core.Harness("CLI binary %s missing (./vc builds it): %v", p, err)
	}
	return p
}

// RunCLI runs the CLI in dir with --no-banner and fatal-only logging; extra env entries are appended.
func RunCLI(dir string, args []string, timeoutS int, env ...string) *CLIResult {
	return RunCLIBin(CLIPath(false), dir, args, timeoutS, env...)
}

func RunCLIBin(bin, dir string, args []string, timeoutS int, env ...string) *CLIResult {
	full := append(append([]string{}, args...), "--no-banner", "-v", "5")
	c := exec.Command(bin, full...)
	c.Dir = dir
	c.Env = append(append(os.Environ(), "GOFLAGS=-mod=mod", "GOPROXY=off"), env...)
	var buf bytes.Buffer
	c.Stdout, c.Stderr = &buf, &buf
	c.SysProcAttr = &syscall.SysProcAttr{Setpgid: true}
	start := time.Now()
	res := &CLIResult{Files: map[string]string{}, Modes: map[string]os.FileMode{}}
	if err := c.Start(); err != nil {
		core.Harness("cannot start CLI: %v", err)
	}
	done := make(chan error, 1)
	go func() { done <- c.Wait() }()
	var err error
	select {
	case err = <-done:
	case <-time.After(time.Duration(timeoutS) * time.Second):
		syscall.Kill(-c.Process.Pid, syscall.SIGKILL)
		<-done
		res.TimedOut = true
	}
	res.WallMs = time.Since(start).Milliseconds()
	res.Output = buf.String()
	if res.TimedOut {
		res.Exit = -1
	} else if err != nil {
		if ee, ok := err.(*exec.ExitError); ok {
			res.Exit = ee.ExitCode()
		} else {
			res.Exit = -2
		}
	}
	filepath.Walk(dir, func(p string, info os.FileInfo, err error) error {
		if err != nil || info.IsDir() {
			return nil
		}
		rel, _ := filepath.Rel(dir, p)
		if rel != "go.sum" && !strings.HasPrefix(rel, ".") && info.Size() < 4<<20 {
			b, _ := os.ReadFile(p)
			res.Files[rel] = string(b)
			res.Modes[rel] = info.Mode().Perm()
		}
		return nil
	})
	return res
}
