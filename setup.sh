#!/bin/bash
# Builds the checker and both CLI binaries and warms the Go build cache, offline, from files on disk only.
cd "$(dirname "$0")" || exit 2
export GOFLAGS=-mod=mod GOPROXY=off
unset GOSUMDB
mkdir -p bin evidence
cp /repo/go.sum go.sum
go build -tags verif -o bin/vcheck ./cmd/vcheck || exit 1
(cd /repo && go build -tags verif -o /verif/bin/gleece . && go build -o /verif/bin/gleece-plain .) || exit 1
# warm-up: compile the five engines once (one runtime-seam scenario) so that the first quick check does not pay for it
f=$(mktemp /dev/shm/verif-warm-XXXX.json)
echo '{"property":"C03","violation":{"oracle":"warmup","features":{},"what":"","case":{"id":"a0000"}}}' > "$f"
VERIF_ROOT=$(mktemp -d /dev/shm/verif-warmroot-XXXX) ; export VERIF_ROOT
cp known_findings.json "$VERIF_ROOT"/ ; mkdir -p "$VERIF_ROOT/bin" ; cp bin/gleece bin/gleece-plain "$VERIF_ROOT/bin"/
./bin/vcheck C03 replay "$f" > /dev/null 2>&1
rm -rf "$f" "$VERIF_ROOT"
echo setup ok
