package spec

import (
	"encoding/json"
	"fmt"
	"regexp"
	"sort"
	"strings"
)

// Finding is one structural defect of a document.
type Finding struct {
	Rule  string // sub-oracle name
	Where string // JSON location (contains path or component names, hence the scenario namespace)
	What  string
	Attrs map[string]string // extra features for known-finding matching
}

var tmplParam = regexp.MustCompile(`\{([^{}/]+)\}`)

var jsonTypes = map[string]bool{"string": true, "number": true, "integer": true, "boolean": true, "array": true, "object": true, "null": true}

// Validate is an independent structural validator for the rules C08 states (it calls no OpenAPI library).
func Validate(d Doc, wantVersion string, cfg map[string]any) []Finding {
	var out []Finding
	add := func(rule, where, format string, a ...any) {
		out = append(out, Finding{Rule: rule, Where: where, What: fmt.Sprintf(format, a...)})
	}
	if v := Str(d["openapi"]); v != wantVersion {
		add("openapi-version", "openapi", "document declares %q, configuration asks for %q", v, wantVersion)
	}
	// every $ref resolves; schema types are JSON-schema types; enum values have the declared type
	var walk func(where string, v any)
	walk = func(where string, v any) {
		switch x := v.(type) {
		case map[string]any:
			if r, ok := x["$ref"].(string); ok {
				if !resolves(d, r) {
					add("ref-resolves", where, "$ref %q does not resolve", r)
				}
			}
			_, hasEnum := x["enum"]
			if t, ok := x["type"]; ok && isSchemaPosition(where) {
				var types []string
				switch tt := t.(type) {
				case string:
					types = []string{tt}
				case []any:
					for _, e := range tt {
						types = append(types, Str(e))
					}
				}
				for _, ty := range types {
					if !jsonTypes[ty] {
						add("schema-type-is-json-type", where, "schema type %q is not a JSON-schema type", ty)
					}
				}
				if hasEnum {
					for _, ev := range L(x["enum"]) {
						if !valueHasType(ev, types) {
							add("enum-value-type", where, "enum value %s does not belong to the declared type %v", Canon(ev), types)
							out[len(out)-1].Attrs = map[string]string{"declared-type": strings.Join(types, "|"), "value-json-type": jsonTypeOf(ev)}
						}
					}
				}
			}
			keys := make([]string, 0, len(x))
			for k := range x {
				keys = append(keys, k)
			}
			sort.Strings(keys)
			for _, k := range keys {
				walk(where+"/"+k, x[k])
			}
		case []any:
			for i, e := range x {
				walk(fmt.Sprintf("%s/%d", where, i), e)
			}
		}
	}
	walk("#", map[string]any(d))
	// paths: template names <-> required path parameters; unique (name,in); responses have descriptions
	for path, item := range M(d["paths"]) {
		if !strings.HasPrefix(path, "/") {
			add("path-starts-with-slash", "#/paths/"+path, "path does not start with '/'")
		}
		tmpl := map[string]bool{}
		for _, m := range tmplParam.FindAllStringSubmatch(path, -1) {
			tmpl[m[1]] = true
		}
		for _, verb := range Verbs {
			op := M(M(item)[verb])
			if op == nil {
				continue
			}
			where := "#/paths/" + path + "/" + verb
			seen := map[string]bool{}
			pathParams := map[string]bool{}
			for _, p := range append(L(M(item)["parameters"]), L(op["parameters"])...) {
				pm := M(p)
				key := Str(pm["name"]) + " in " + Str(pm["in"])
				if seen[key] {
					add("parameter-unique", where, "parameter %s appears twice", key)
				}
				seen[key] = true
				if Str(pm["in"]) == "path" {
					pathParams[Str(pm["name"])] = true
					if req, _ := pm["required"].(bool); !req {
						add("path-parameter-required", where, "path parameter %q is not marked required", Str(pm["name"]))
					}
				}
			}
			for n := range tmpl {
				if !pathParams[n] {
					add("template-name-has-path-parameter", where, "{%s} in the path template has no matching path parameter", n)
				}
			}
			for n := range pathParams {
				if !tmpl[n] {
					add("path-parameter-in-template", where, "path parameter %q does not occur in the path template", n)
				}
			}
			// a closed document: every security requirement names a scheme the document declares
			for _, alt := range L(op["security"]) {
				for name := range M(alt) {
					if _, ok := d.SecuritySchemes()[name]; !ok {
						add("security-requirement-names-declared-scheme", where+"/security", "requirement names scheme %q, components.securitySchemes declares %v", name, sortedKeys(d.SecuritySchemes()))
					}
				}
			}
			resps := M(op["responses"])
			if len(resps) == 0 {
				add("responses-present", where, "operation has no responses")
			}
			for code, r := range resps {
				if _, ok := M(r)["description"].(string); !ok {
					if _, isRef := M(r)["$ref"]; !isRef {
						add("response-has-description", where+"/responses/"+code, "response has no description")
					}
				}
			}
		}
	}
	// info / servers / securitySchemes are those of the configuration
	if cfg != nil {
		oc := M(cfg["openapiGeneratorConfig"])
		info, cinfo := M(d["info"]), M(oc["info"])
		for _, k := range []string{"title", "version", "description", "termsOfService"} {
			if Str(info[k]) != Str(cinfo[k]) {
				add("info-as-configured", "#/info/"+k, "info.%s is %q, configuration says %q", k, Str(info[k]), Str(cinfo[k]))
			}
		}
		for _, sec := range []string{"contact", "license"} {
			for k, cv := range M(cinfo[sec]) {
				if Str(M(info[sec])[k]) != Str(cv) {
					add("info-as-configured", "#/info/"+sec+"/"+k, "info.%s.%s is %q, configuration says %q", sec, k, Str(M(info[sec])[k]), Str(cv))
				}
			}
		}
		servers := L(d["servers"])
		if len(servers) != 1 || Str(M(servers[0])["url"]) != Str(oc["baseUrl"]) {
			add("servers-as-configured", "#/servers", "servers is %s, configuration baseUrl is %q", Canon(d["servers"]), Str(oc["baseUrl"]))
		}
		want := map[string]map[string]any{}
		for _, s := range L(oc["securitySchemes"]) {
			want[Str(M(s)["name"])] = M(s)
		}
		got := d.SecuritySchemes()
		for n, ws := range want {
			gs := M(got[n])
			if gs == nil {
				add("security-schemes-as-configured", "#/components/securitySchemes/"+n, "configured scheme is missing")
				continue
			}
			for ck, dk := range map[string]string{"type": "type", "in": "in", "fieldName": "name", "description": "description", "scheme": "scheme", "openIdConnectUrl": "openIdConnectUrl"} {
				if cv := Str(ws[ck]); cv != "" && Str(gs[dk]) != cv {
					add("security-schemes-as-configured", "#/components/securitySchemes/"+n+"/"+dk, "%s is %q, configuration says %q", dk, Str(gs[dk]), cv)
				}
			}
			// OAuth2 flows: exactly the configured flow kinds, each with the configured URLs and scopes
			wf, gf := M(ws["flows"]), M(gs["flows"])
			for _, fk := range []string{"implicit", "password", "clientCredentials", "authorizationCode"} {
				w, g := M(wf[fk]), M(gf[fk])
				where := "#/components/securitySchemes/" + n + "/flows/" + fk
				switch {
				case w == nil && g == nil:
				case w == nil:
					add("security-schemes-as-configured", where, "the document has a %s flow %s, the configuration has none for this scheme", fk, Canon(gf[fk]))
				case g == nil:
					add("security-schemes-as-configured", where, "the configured %s flow is missing", fk)
				default:
					for _, uk := range []string{"authorizationUrl", "tokenUrl", "refreshUrl"} {
						if Str(w[uk]) != Str(g[uk]) {
							add("security-schemes-as-configured", where+"/"+uk, "%s is %q, configuration says %q", uk, Str(g[uk]), Str(w[uk]))
						}
					}
					if Canon(orEmptyMap(w["scopes"])) != Canon(orEmptyMap(g["scopes"])) {
						add("security-schemes-as-configured", where+"/scopes", "scopes are %s, configuration says %s", Canon(g["scopes"]), Canon(w["scopes"]))
					}
				}
			}
		}
		for n := range got {
			if want[n] == nil {
				add("security-schemes-as-configured", "#/components/securitySchemes/"+n, "scheme is not in the configuration")
			}
		}
	}
	return out
}

func orEmptyMap(v any) any {
	if m := M(v); m != nil {
		return m
	}
	return map[string]any{}
}

func isSchemaPosition(where string) bool {
	// "type" keys under securitySchemes are not schema types
	return !strings.Contains(where, "/securitySchemes/")
}

func resolves(d Doc, ref string) bool {
	if !strings.HasPrefix(ref, "#/") {
		return false
	}
	var cur any = map[string]any(d)
	for _, part := range strings.Split(ref[2:], "/") {
		part = strings.ReplaceAll(strings.ReplaceAll(part, "~1", "/"), "~0", "~")
		m, ok := cur.(map[string]any)
		if !ok {
			return false
		}
		cur, ok = m[part]
		if !ok {
			return false
		}
	}
	return true
}

func valueHasType(v any, types []string) bool {
	for _, t := range types {
		switch t {
		case "string":
			if _, ok := v.(string); ok {
				return true
			}
		case "boolean":
			if _, ok := v.(bool); ok {
				return true
			}
		case "integer":
			if n, ok := v.(json.Number); ok {
				if _, err := n.Int64(); err == nil {
					return true
				}
				if f, err := n.Float64(); err == nil && f == float64(int64(f)) {
					return true
				}
			}
		case "number":
			if _, ok := v.(json.Number); ok {
				return true
			}
		case "null":
			if v == nil {
				return true
			}
		case "array":
			if _, ok := v.([]any); ok {
				return true
			}
		case "object":
			if _, ok := v.(map[string]any); ok {
				return true
			}
		}
	}
	return false
}

func jsonTypeOf(v any) string {
	switch v.(type) {
	case string:
		return "string"
	case bool:
		return "boolean"
	case json.Number:
		return "number"
	case nil:
		return "null"
	case []any:
		return "array"
	}
	return "object"
}

func sortedKeys(m map[string]any) []string {
	var out []string
	for k := range m {
		out = append(out, k)
	}
	sort.Strings(out)
	return out
}
