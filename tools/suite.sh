#!/bin/bash
# suite.sh [srcdir] — copies srcdir (default /repo working tree) to a scratch dir and runs the pinned
# baseline suite there (guard off); prints the number of passing top-level tests (baseline: 37).
src="${1:-/repo}"
scratch=$(mktemp -d /dev/shm/verif-suite-XXXXXX)
trap 'rm -rf "$scratch"' EXIT
rsync -a --exclude .git "$src"/ "$scratch"/
cd "$scratch" || exit 2
export GOFLAGS=-mod=mod GOPROXY=off
go test -mod=mod -json -vet=off -count=1 -timeout 25m ./... > "$scratch/out.json" 2> "$scratch/err.txt"
python3 - "$scratch/out.json" <<'PY'
import json,sys
res={}
for l in open(sys.argv[1]):
    try: e=json.loads(l)
    except: continue
    t=e.get('Test')
    if t and '/' not in t and e.get('Action') in ('pass','fail'):
        res[e['Package']+'::'+t]=e['Action']
    if not t and e.get('Action')=='fail':
        res[e['Package']+'::<pkg>']='fail'
p=[k for k,v in res.items() if v=='pass']; f=[k for k,v in res.items() if v=='fail']
print('PASS',len(p),'FAIL',len(f))
for k in f: print('  FAIL',k)
PY
tail -5 "$scratch/err.txt"
