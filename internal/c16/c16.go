// Package c16 decides C16 (annotation comments parse back to exactly what was written) by enumerating the
// whole bounded line grammar and every short comment block, pushing each through go/parser and the real
// annotations.NewAnnotationHolder, and comparing with a hand-written, string-aware reference parser.
package c16

import (
	"fmt"
	"go/ast"
	"go/parser"
	"go/token"
	"reflect"
	"strings"
	"time"
	"unicode"

	"github.com/gopher-fleece/gleece/v2/core/annotations"
	"github.com/gopher-fleece/gleece/v2/gast"

	"verif/internal/core"
)

// ---- reference parser -------------------------------------------------------------------------------

type refKind int

const (
	refFree    refKind = iota // not of the annotation form: kept as free text
	refAttr                   // annotation with well-formed parts
	refBadJSON                // annotation form, balanced JSON5 object that is not valid JSON5: must be an error
	refUnclear                // starts like an annotation but the parenthesised part is not of the form (unbalanced object, junk): error or free text, never an attribute
)

type refLine struct {
	Kind  refKind
	Name  string
	Value string
	Props string // raw text of the JSON5 object ("" = none)
	Desc  string
}

func isWord(r rune) bool {
	return r == '_' || (r < 128 && (unicode.IsLetter(r) || unicode.IsDigit(r)))
}
func isValueChar(r rune) bool {
	return isWord(r) || strings.ContainsRune(`-_/\{} `, r)
}

// scanObject returns the end (exclusive) of the balanced, string-aware {...} starting at s[0]=='{', or -1.
func scanObject(s string) int {
	depth := 0
	var quote byte
	for i := 0; i < len(s); i++ {
		c := s[i]
		if quote != 0 {
			if c == '\\' {
				i++
			} else if c == quote {
				quote = 0
			}
			continue
		}
		switch c {
		case '"', '\'':
			quote = c
		case '{', '[':
			depth++
		case '}', ']':
			depth--
			if depth == 0 {
				if c != '}' {
					return -1
				}
				return i + 1
			}
		}
	}
	return -1
}

// refParse implements the grammar `// @Name[(value[, {json5}])][ description]` reading left to right.
func refParse(text string, validJSON func(string) bool) refLine {
	t := strings.TrimSpace(text)
	if !strings.HasPrefix(t, "// @") {
		return refLine{Kind: refFree}
	}
	rest := t[4:]
	i := 0
	for i < len(rest) && isWord(rune(rest[i])) {
		i++
	}
	if i == 0 {
		return refLine{Kind: refFree}
	}
	out := refLine{Kind: refAttr, Name: rest[:i]}
	rest = rest[i:]
	if strings.HasPrefix(rest, "(") {
		j := 1
		for j < len(rest) && isValueChar(rune(rest[j])) {
			j++
		}
		if j == 1 {
			return refLine{Kind: refFree} // "@Name()" / "@Name(," is not of the form
		}
		out.Value = rest[1:j]
		rest = rest[j:]
		if strings.HasPrefix(rest, ",") {
			k := 1
			for k < len(rest) && (rest[k] == ' ' || rest[k] == '\t') {
				k++
			}
			if k >= len(rest) || rest[k] != '{' {
				return refLine{Kind: refFree}
			}
			end := scanObject(rest[k:])
			if end < 0 {
				return refLine{Kind: refUnclear}
			}
			out.Props = rest[k : k+end]
			rest = rest[k+end:]
			if !strings.HasPrefix(rest, ")") {
				return refLine{Kind: refUnclear}
			}
		}
		if !strings.HasPrefix(rest, ")") {
			return refLine{Kind: refFree}
		}
		rest = rest[1:]
	}
	if rest != "" {
		if rest[0] != ' ' && rest[0] != '\t' {
			return refLine{Kind: refFree}
		}
		out.Desc = strings.TrimLeft(rest, " \t")
	}
	if out.Props != "" && !validJSON(out.Props) {
		return refLine{Kind: refBadJSON, Name: out.Name}
	}
	return out
}

// ---- alphabet -----------------------------------------------------------------------------------------

type propsLit struct {
	Text  string
	Want  map[string]any // nil = invalid JSON5
	Valid bool
}

func propsAlphabet() []propsLit {
	return []propsLit{
		{`{}`, map[string]any{}, true},
		{`{name:"b"}`, map[string]any{"name": "b"}, true},
		{`{"name":"b"}`, map[string]any{"name": "b"}, true},
		{`{ a: 1, b: [1, 2], c: {d: "e"} }`, map[string]any{"a": 1.0, "b": []any{1.0, 2.0}, "c": map[string]any{"d": "e"}}, true},
		{`{s:")"}`, map[string]any{"s": ")"}, true},
		{`{s:","}`, map[string]any{"s": ","}, true},
		{`{s:"}"}`, map[string]any{"s": "}"}, true},
		{`{s:"})"}`, map[string]any{"s": "})"}, true},
		{`{s:"{"}`, map[string]any{"s": "{"}, true},
		{`{s:'q'}`, map[string]any{"s": "q"}, true},
		{`{k:1,}`, map[string]any{"k": 1.0}, true},
		{`{scopes:["r","w"]}`, map[string]any{"scopes": []any{"r", "w"}}, true},
		{`{validate:"required,gte=1"}`, map[string]any{"validate": "required,gte=1"}, true},
		{`{ü:"é✓"}`, nil, false}, // non-ASCII bare key: whatever the JSON5 library says, judged only as error-or-equal (see below)
		{`{a:}`, nil, false},
		{`{a}`, nil, false},
		{`{a:1 b:2}`, nil, false},
		{`{a:1`, nil, false},   // unbalanced
		{`{a:1}}`, nil, false}, // stray brace
	}
}

type lineCase struct {
	Text string
	Ref  refLine
	P    *propsLit
}

func buildLines(tier string) []lineCase {
	names := []string{"Query", "Route", "Foo", "x_1"}
	values := []string{"a", "a-b", "/a/{b}", "a b", "{x}", `a\b`}
	seps := []string{", ", ",", ",  "}
	descs := []string{"", "text", "héllo wörld ✓", "see (x)", "see {x}", "see {x})", "a, b", "see ({y:2})", "@Other(x)", "see {x}) for details", "a }) b }) c", "ends }) {k: 1}) more", "(experimental) creates a user", "(since v2)"}
	props := propsAlphabet()
	valid := map[string]bool{}
	for _, p := range props {
		valid[p.Text] = p.Valid
	}
	validJSON := func(s string) bool { return valid[s] }
	var out []lineCase
	add := func(text string, p *propsLit) {
		out = append(out, lineCase{Text: text, Ref: refParse(text, validJSON), P: p})
	}
	for _, n := range names {
		for _, d := range descs {
			suffix := ""
			if d != "" {
				suffix = " " + d
			}
			add("// @"+n+suffix, nil)
			for _, v := range values {
				add("// @"+n+"("+v+")"+suffix, nil)
				for pi := range props {
					for _, sep := range seps {
						add("// @"+n+"("+v+sep+props[pi].Text+")"+suffix, &props[pi])
					}
				}
			}
		}
	}
	// lines that are not annotations (or are degenerate ones)
	for _, t := range []string{"// text", "//", "// ", "//@X", "// @ X", "// email@x.y", "// @", "//  @X(a)", "//\t@X", "// @X()", "// @X(a)b",
		"// @X(a,b)", "// @X(a,)", "// @X(a", "// @X a)", "// x @X(a)", "// @X(a) ", "// @X  two  spaces", "// @X\ttab desc", "// @Xé", "// @X(é)",
		// free text whose first or last character is a slash, or that looks like a comment itself
		"// /users/{id} is the path", "// see https://example.com/api/", "// note /", "// // nested marker", "/// triple slash", "// a / b"} {
		add(t, nil)
	}
	return out
}

// ---- driving the real parser -----------------------------------------------------------------------

// parseBlocks writes one Go file with one function per block, parses it with go/parser and returns the
// doc comment lists in order.
func parseBlocks(blocks [][]string) ([]gast.CommentBlock, error) {
	var sb strings.Builder
	sb.WriteString("package p\n\n")
	for i, b := range blocks {
		for _, l := range b {
			sb.WriteString(l)
			sb.WriteString("\n")
		}
		fmt.Fprintf(&sb, "func F%d() {}\n\n", i)
	}
	fset := token.NewFileSet()
	f, err := parser.ParseFile(fset, "/virtual/c16.go", sb.String(), parser.ParseComments)
	if err != nil {
		return nil, err
	}
	var out []gast.CommentBlock
	for _, d := range f.Decls {
		fd, ok := d.(*ast.FuncDecl)
		if !ok {
			continue
		}
		if fd.Doc == nil {
			out = append(out, gast.MapDocListToCommentBlock(nil, fset))
			continue
		}
		out = append(out, gast.MapDocListToCommentBlock(fd.Doc.List, fset))
	}
	if len(out) != len(blocks) {
		return nil, fmt.Errorf("parsed %d blocks, wrote %d", len(out), len(blocks))
	}
	return out, nil
}

type observed struct {
	Err   string
	Attrs []annotations.Attribute
	Free  []annotations.NonAttributeComment
	Desc  string
}

func runReal(cb gast.CommentBlock) (o observed) {
	defer func() {
		if r := recover(); r != nil {
			o.Err = fmt.Sprintf("PANIC: %v", r)
		}
	}()
	h, err := annotations.NewAnnotationHolder(cb, annotations.CommentSourceRoute)
	if err != nil {
		o.Err = "error: " + err.Error()
		return
	}
	o.Attrs = h.Attributes()
	o.Free = h.NonAttributeComments()
	o.Desc = h.GetDescription()
	return
}

func freeText(line string) string {
	return strings.TrimSpace(strings.TrimPrefix(strings.TrimSpace(line), "//"))
}

func propsEqual(got map[string]any, want map[string]any) bool {
	if len(got) == 0 && len(want) == 0 {
		return true
	}
	return reflect.DeepEqual(normalise(got), normalise(want))
}

func normalise(v any) any {
	switch x := v.(type) {
	case map[string]any:
		o := map[string]any{}
		for k, e := range x {
			o[k] = normalise(e)
		}
		return o
	case []any:
		o := make([]any, len(x))
		for i, e := range x {
			o[i] = normalise(e)
		}
		return o
	case int:
		return float64(x)
	case int64:
		return float64(x)
	default:
		return v
	}
}

func checkLine(run *core.Run, lc lineCase, o observed) {
	feat := map[string]string{"line.kind": fmt.Sprint(lc.Ref.Kind)}
	if lc.P != nil {
		feat["props"] = lc.P.Text
	}
	rep := func(oracle, what string) {
		f := map[string]string{}
		for k, v := range feat {
			f[k] = v
		}
		f["desc.has-brace-paren"] = fmt.Sprint(lc.P != nil && strings.Contains(afterProps(lc), "}"))
		run.Report(core.Violation{Oracle: oracle, Features: f, What: what, Case: map[string]any{"line": lc.Text},
			Expected: lc.Ref, Observed: describe(o)})
	}
	if strings.HasPrefix(o.Err, "PANIC") {
		rep("line/panic", o.Err)
		return
	}
	nonASCIIKey := lc.P != nil && strings.Contains(lc.P.Text, "ü")
	switch lc.Ref.Kind {
	case refFree:
		run.Outcome("line:free", 1)
		if o.Err != "" || len(o.Attrs) != 0 || len(o.Free) != 1 {
			rep("line/free-text-must-stay-free", "a line that is not of the annotation form produced "+describe(o))
			return
		}
		if strings.TrimSpace(o.Free[0].Value) != freeText(lc.Text) {
			rep("line/free-text-retained", fmt.Sprintf("free text %q kept as %q", freeText(lc.Text), o.Free[0].Value))
		}
	case refUnclear:
		run.Outcome("line:unclear(error-or-free)", 1)
		if len(o.Attrs) != 0 {
			rep("line/malformed-never-an-attribute", "malformed parenthesised part yielded an attribute: "+describe(o))
		}
	case refBadJSON:
		if nonASCIIKey {
			run.Outcome("line:nonascii-key(error-or-equal)", 1)
			if o.Err == "" && (len(o.Attrs) != 1 || !propsEqual(o.Attrs[0].Properties, map[string]any{"ü": "é✓"})) {
				rep("line/malformed-json5-must-error", "neither an error nor the written object: "+describe(o))
			}
			return
		}
		run.Outcome("line:bad-json5(error)", 1)
		if o.Err == "" {
			rep("line/malformed-json5-must-error", "malformed JSON5 did not produce an error: "+describe(o))
		}
	case refAttr:
		run.Outcome("line:attribute", 1)
		if o.Err != "" {
			rep("line/wellformed-must-parse", "well-formed annotation line rejected: "+o.Err)
			return
		}
		if len(o.Attrs) != 1 || len(o.Free) != 0 {
			rep("line/wellformed-must-parse", "well-formed annotation line did not yield exactly one attribute: "+describe(o))
			return
		}
		a := o.Attrs[0]
		if a.Name != lc.Ref.Name {
			rep("line/name", fmt.Sprintf("name %q, want %q", a.Name, lc.Ref.Name))
		}
		if a.Value != lc.Ref.Value {
			rep("line/value", fmt.Sprintf("value %q, want %q", a.Value, lc.Ref.Value))
		}
		if a.Description != lc.Ref.Desc {
			rep("line/description", fmt.Sprintf("description %q, want %q", a.Description, lc.Ref.Desc))
		}
		var want map[string]any
		if lc.P != nil {
			want = lc.P.Want
		}
		if !propsEqual(a.Properties, want) {
			rep("line/properties", fmt.Sprintf("properties %v, want %v", a.Properties, want))
		}
	}
}

func afterProps(lc lineCase) string {
	i := strings.Index(lc.Text, lc.P.Text)
	if i < 0 {
		return ""
	}
	return lc.Text[i+len(lc.P.Text):]
}

func describe(o observed) string {
	if o.Err != "" {
		return o.Err
	}
	var parts []string
	for _, a := range o.Attrs {
		parts = append(parts, fmt.Sprintf("attr{name=%q value=%q props=%v desc=%q}", a.Name, a.Value, a.Properties, a.Description))
	}
	for _, f := range o.Free {
		parts = append(parts, fmt.Sprintf("free{%d:%q}", f.Index, f.Value))
	}
	return strings.Join(parts, " ") + fmt.Sprintf(" description=%q", o.Desc)
}

// ---- blocks -------------------------------------------------------------------------------------------

var blockKinds = []string{"// hello world", "//", "// @Foo(a) d", "// @Description the text", "// @Description", "//@X not an annotation", "// @Query(v, {name:\"n\"}) q", "// /path/like/ text /"}

func enumerateBlocks(maxLen int) [][]string {
	var out [][]string
	var rec func(cur []string)
	rec = func(cur []string) {
		if len(cur) > 0 {
			out = append(out, append([]string(nil), cur...))
		}
		if len(cur) == maxLen {
			return
		}
		for _, k := range blockKinds {
			rec(append(cur, k))
		}
	}
	rec(nil)
	return out
}

func checkBlock(run *core.Run, block []string, o observed) {
	validJSON := func(string) bool { return true }
	rep := func(oracle, what string) {
		run.Report(core.Violation{Oracle: oracle, Features: map[string]string{"block.len": fmt.Sprint(len(block))}, What: what,
			Case: map[string]any{"block": block}, Observed: describe(o)})
	}
	if o.Err != "" {
		rep("block/wellformed-must-parse", o.Err)
		return
	}
	type want struct {
		attr bool
		ref  refLine
		idx  int
		text string
	}
	var ws []want
	for i, l := range block {
		r := refParse(l, validJSON)
		ws = append(ws, want{attr: r.Kind == refAttr, ref: r, idx: i, text: l})
	}
	// order + retention
	ai, fi := 0, 0
	for _, w := range ws {
		if w.attr {
			if ai >= len(o.Attrs) {
				rep("block/attribute-order", "missing attribute for line "+w.text)
				return
			}
			a := o.Attrs[ai]
			ai++
			if a.Name != w.ref.Name || a.Value != w.ref.Value || a.Description != w.ref.Desc || a.Comment.Index != w.idx {
				rep("block/attribute-order", fmt.Sprintf("attribute #%d is %q(%q) idx=%d, want %q(%q) idx=%d", ai-1, a.Name, a.Value, a.Comment.Index, w.ref.Name, w.ref.Value, w.idx))
				return
			}
		} else {
			if fi >= len(o.Free) {
				rep("block/free-text-retained", "missing free text for line "+w.text)
				return
			}
			f := o.Free[fi]
			fi++
			if strings.TrimSpace(f.Value) != freeText(w.text) || f.Index != w.idx {
				rep("block/free-text-retained", fmt.Sprintf("free text #%d is %q idx=%d, want %q idx=%d", fi-1, f.Value, f.Index, freeText(w.text), w.idx))
				return
			}
		}
	}
	if ai != len(o.Attrs) || fi != len(o.Free) {
		rep("block/nothing-invented", "more attributes or free-text lines than source lines: "+describe(o))
		return
	}
	// description rule
	wantDesc := ""
	hasDescAttr := false
	for _, w := range ws {
		if w.attr && w.ref.Name == "Description" {
			wantDesc = w.ref.Desc
			hasDescAttr = true
			break
		}
	}
	if !hasDescAttr {
		var lead []string
		for _, w := range ws {
			if w.attr {
				break
			}
			lead = append(lead, freeText(w.text))
		}
		for len(lead) > 0 && lead[len(lead)-1] == "" {
			lead = lead[:len(lead)-1]
		}
		wantDesc = strings.Join(lead, "\n")
	}
	if o.Desc != wantDesc {
		rep("block/description-rule", fmt.Sprintf("entity description %q, want %q", o.Desc, wantDesc))
	}
	run.Outcome(fmt.Sprintf("block: attrs=%d free=%d desc-from-attr=%v desc-empty=%v", len(o.Attrs), len(o.Free), hasDescAttr, wantDesc == ""), 1)
}

func Main(tier, replay string) {
	run := core.NewRun("C16", tier)
	if replay != "" {
		_, v := core.LoadReplay(replay)
		m, _ := v.Case.(map[string]any)
		if l, ok := m["line"].(string); ok {
			exploreLines(run, []lineCase{replayLine(l)})
		} else if b, ok := m["block"].([]any); ok {
			var blk []string
			for _, x := range b {
				blk = append(blk, x.(string))
			}
			exploreBlocks(run, [][]string{blk})
		}
		run.Bound = "replay of one case"
		run.Finish()
	}
	_ = time.Now
	lines := buildLines(tier)
	exploreLines(run, lines)
	maxLen := 4
	if tier == "thorough" {
		maxLen = 6
	}
	blocks := enumerateBlocks(maxLen)
	exploreBlocks(run, blocks)
	run.Bound = fmt.Sprintf("every line of the bounded grammar (%d lines: 4 names x 6 values x 19 property literals x 3 separators x 14 descriptions + 27 non-annotation lines); every comment block of <= %d lines over %d line kinds (%d blocks)", len(lines), maxLen, len(blockKinds), len(blocks))
	run.Rule = "state = one comment line or block as written in a Go file; transition = go/parser + gast.MapDocListToCommentBlock + annotations.NewAnnotationHolder on it; validated = comparisons with the left-to-right string-aware reference parser (name, value, properties deep-equal, description, order, free text, description rule, malformed JSON5 => error)"
	run.Assumptions = []string{"whitespace before the comma and the unbalanced-object case are not judged (statement silent)", "expected property objects are written by hand per literal, not computed by a JSON5 library"}
	run.Finish()
}

func replayLine(l string) lineCase {
	props := propsAlphabet()
	valid := map[string]bool{}
	var p *propsLit
	for i := range props {
		valid[props[i].Text] = props[i].Valid
		if strings.Contains(l, props[i].Text) && (p == nil || len(props[i].Text) > len(p.Text)) {
			p = &props[i]
		}
	}
	return lineCase{Text: l, Ref: refParse(l, func(s string) bool { return valid[s] }), P: p}
}

func exploreLines(run *core.Run, lines []lineCase) {
	var blocks [][]string
	for _, l := range lines {
		blocks = append(blocks, []string{l.Text})
	}
	cbs, err := parseBlocks(blocks)
	if err != nil {
		core.Harness("generated file does not parse: %v", err)
	}
	for i, lc := range lines {
		o := runReal(cbs[i])
		checkLine(run, lc, o)
		run.AddStates(1)
		run.AddTransitions(1)
		run.AddValidated(1)
		if i%997 == 0 {
			run.Sample(map[string]any{"line": lc.Text, "expected": lc.Ref})
		}
	}
}

func exploreBlocks(run *core.Run, blocks [][]string) {
	cbs, err := parseBlocks(blocks)
	if err != nil {
		core.Harness("generated file does not parse: %v", err)
	}
	for i, b := range blocks {
		o := runReal(cbs[i])
		checkBlock(run, b, o)
		run.AddStates(1)
		run.AddTransitions(1)
		run.AddValidated(1)
		if i%1999 == 0 {
			run.Sample(map[string]any{"block": b})
		}
	}
}
