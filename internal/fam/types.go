package fam

import (
	"fmt"
	"sort"
	"strings"

	"verif/internal/scen"
)

// ExpSchema is the reference model of one component schema.
type ExpSchema struct {
	Kind     string              // struct | enum | alias
	Props    map[string][]string // JSON name -> acceptable schema kinds (struct)
	Required []string            // struct
	AllOf    []string            // embedded struct names (struct)
	Docs     map[string]string   // JSON name -> the field's own doc comment (struct); a property may carry it or nothing, never another field's
	Values   []string            // enum constants as written (string form)
	Base     string              // enum / alias underlying JSON type
}

// TypeExpect is the reference model of one scenario's components.
type TypeExpect struct {
	Schemas  map[string]ExpSchema // exactly these namespaced components must exist
	Absent   []string             // declared but unreachable: must not exist
	Optional []string             // may or may not exist (statement silent)
}

type edgeKind int

const (
	eNone edgeKind = iota
	eVal
	ePtr
	eSlice
	eMap
	eEmbed
)

var edgeNames = []string{"none", "T", "*T", "[]T", "map[string]T", "embed"}

func edgeField(k edgeKind, fname, target string) (decl string, prop string, kinds []string, embed bool) {
	switch k {
	case eVal:
		return fname + " " + target, fname, []string{"$ref:" + target}, false
	case ePtr:
		return fname + " *" + target, fname, []string{"$ref:" + target}, false
	case eSlice:
		return fname + " []" + target, fname, []string{"array<$ref:" + target + ">"}, false
	case eMap:
		return fname + " map[string]" + target, fname, []string{"map<$ref:" + target + ">"}, false
	case eEmbed:
		return target, "", nil, true
	}
	return "", "", nil, false
}

// valid reports whether the two-struct graph compiles: no cycle made of by-value/embedded edges only.
func validGraph(aa, ab, ba, bb edgeKind) bool {
	byVal := func(k edgeKind) bool { return k == eVal || k == eEmbed }
	if byVal(aa) || byVal(bb) {
		return false
	}
	if byVal(ab) && byVal(ba) {
		return false
	}
	if ab == eEmbed && aa == eEmbed {
		return false
	}
	return true
}

type typeBuilder struct {
	n     int
	cases []scen.Case
	exp   map[string]TypeExpect
}

func (b *typeBuilder) nextID() string {
	id := fmt.Sprintf("t%04d", b.n)
	b.n++
	return id
}

// usage renders the route that uses root type `root` in the given way.
func usageMethod(id, usage, root string) scen.Method {
	m := scen.Method{Name: "Op" + id, Verb: "POST", Route: scen.S("/op")}
	switch usage {
	case "body":
		m.Params = []scen.Param{{Name: "b", Type: root, In: "Body"}}
	case "return":
		m.Ret = root
	case "[]return":
		m.Ret = "[]" + root
	case "*return":
		m.Ret = "*" + root
	}
	return m
}

func (b *typeBuilder) addCase(id, family string, decl string, methods []scen.Method, exp TypeExpect, feat map[string]string, imports []string) {
	ctl := scen.Controller{Name: "C" + id, Pkg: id, Prefix: scen.S("/" + id), Tag: scen.S("T" + id), Methods: methods}
	u := scen.Unit{Controllers: []scen.Controller{ctl}, Decls: map[string]string{id: decl}, Imports: map[string][]string{id: imports}}
	f := map[string]string{"family": family}
	for k, v := range feat {
		f[k] = v
	}
	b.cases = append(b.cases, scen.Case{ID: id, Unit: u, Features: f, Desc: map[string]any{"decls": decl, "controller": ctl}})
	b.exp[id] = exp
}

func (b *typeBuilder) graphs(tier string) {
	usages := []string{"return", "body", "[]return"}
	combo := 0
	for aa := eNone; aa <= eEmbed; aa++ {
		for ab := eNone; ab <= eEmbed; ab++ {
			for ba := eNone; ba <= eEmbed; ba++ {
				for bb := eNone; bb <= eEmbed; bb++ {
					if !validGraph(aa, ab, ba, bb) {
						continue
					}
					mutual := ab != eNone && ba != eNone
					if mutual && tier != "thorough" && !(aa == eNone && bb == eNone) {
						continue // quick: mutually recursive pairs (outside the statement's "acyclic and self-recursive") only without self-loops
					}
					for ui, usage := range usages {
						if tier != "thorough" && ui > 0 && (aa != eNone || bb != eNone || mutual) {
							continue // quick: self-loops only with the plain return usage
						}
						// the second struct's type name is exported or not (quick: alternating; thorough: both)
						combo++
						for _, lower := range []bool{false, true} {
							if tier != "thorough" && lower != (combo%2 == 1) {
								continue
							}
							id := b.nextID()
							A, B := "A"+id, "B"+id
							if lower {
								B = "b" + id
							}
							build := func(self, other string, toSelf, toOther edgeKind) (string, ExpSchema) {
								es := ExpSchema{Kind: "struct", Props: map[string][]string{"X": {"integer"}}}
								var sb strings.Builder
								sb.WriteString("type " + self + " struct {\n\tX int\n")
								for _, e := range []struct {
									k      edgeKind
									fname  string
									target string
								}{{toSelf, "Fs", self}, {toOther, "Fo", other}} {
									d, prop, kinds, embed := edgeField(e.k, e.fname, e.target)
									if d == "" {
										continue
									}
									sb.WriteString("\t" + d + "\n")
									if embed {
										es.AllOf = append(es.AllOf, e.target)
									} else {
										es.Props[prop] = kinds
									}
								}
								sb.WriteString("}\n")
								return sb.String(), es
							}
							declA, expA := build(A, B, aa, ab)
							declB, expB := build(B, A, bb, ba)
							exp := TypeExpect{Schemas: map[string]ExpSchema{A: expA}}
							if ab != eNone {
								exp.Schemas[B] = expB
							} else {
								exp.Absent = []string{B}
							}
							b.addCase(id, "type-graph", declA+"\n"+declB, []scen.Method{usageMethod(id, usage, A)}, exp,
								map[string]string{"A->A": edgeNames[aa], "A->B": edgeNames[ab], "B->A": edgeNames[ba], "B->B": edgeNames[bb], "usage": usage, "mutual": fmt.Sprint(mutual), "B-exported": fmt.Sprint(!lower)}, nil)
						}
					}
				}
			}
		}
	}
}

type leaf struct {
	Name  string
	Go    string   // type (§)
	Kinds []string // acceptable kinds
	Decl  string
	Exp   *ExpSchema // component created by the declaration (named Go without decoration)
	Comp  string     // component name (§)
	Extra string     // further declarations of the same package, written into a second file (§)
}

func leaves() []leaf {
	enum := func(name, base, jsonType string, consts [][2]string) leaf {
		var sb strings.Builder
		fmt.Fprintf(&sb, "type %s§ %s\n\nconst (\n", name, base)
		var vals []string
		for _, c := range consts {
			fmt.Fprintf(&sb, "\t%s§%s %s§ = %s\n", name, c[0], name, c[1])
			vals = append(vals, strings.Trim(c[1], `"`))
		}
		sb.WriteString(")\n")
		return leaf{Name: "enum-" + base, Go: name + "§", Kinds: []string{"$ref:" + name + "§"}, Decl: sb.String(), Comp: name + "§",
			Exp: &ExpSchema{Kind: "enum", Values: vals, Base: jsonType}}
	}
	return []leaf{
		{Name: "string", Go: "string", Kinds: []string{"string"}},
		{Name: "int", Go: "int", Kinds: []string{"integer"}},
		{Name: "int64", Go: "int64", Kinds: []string{"integer"}},
		{Name: "uint16", Go: "uint16", Kinds: []string{"integer"}},
		{Name: "float32", Go: "float32", Kinds: []string{"number"}},
		{Name: "bool", Go: "bool", Kinds: []string{"boolean"}},
		{Name: "time.Time", Go: "time.Time", Kinds: []string{"string"}},
		{Name: "[]byte", Go: "[]byte", Kinds: []string{"string"}},
		{Name: "*string", Go: "*string", Kinds: []string{"string"}},
		{Name: "[]string", Go: "[]string", Kinds: []string{"array<string>"}},
		{Name: "[][]int", Go: "[][]int", Kinds: []string{"array<array<integer>>"}},
		{Name: "map[string]int", Go: "map[string]int", Kinds: []string{"map<integer>"}},
		{Name: "map[string][]string", Go: "map[string][]string", Kinds: []string{"map<array<string>>"}},
		// element types about which nothing is known: the array must still say what its items are
		{Name: "[]any", Go: "[]any", Kinds: []string{"array<object>", "array<<untyped>>"}},
		{Name: "[][]interface{}", Go: "[][]interface{}", Kinds: []string{"array<array<object>>", "array<array<<untyped>>>"}},
		{Name: "map[string][]any", Go: "map[string][]any", Kinds: []string{"map<array<object>>", "map<array<<untyped>>>"}},
		enum("ES", "string", "string", [][2]string{{"A", `"a"`}, {"B", `"b"`}}),
		enum("ESe", "string", "string", [][2]string{{"None", `""`}, {"A", `"a"`}, {"B", `"b"`}}),
		enum("EIz", "int", "integer", [][2]string{{"Zero", "0"}, {"Neg", "-1"}, {"Two", "2"}}),
		enum("EI", "int", "integer", [][2]string{{"One", "1"}, {"Two", "2"}}),
		enum("EI16", "int16", "integer", [][2]string{{"One", "1"}, {"Two", "2"}}),
		enum("EF", "float64", "number", [][2]string{{"Half", "0.5"}, {"Two", "2"}}),
		enum("EB", "bool", "boolean", [][2]string{{"Yes", "true"}, {"No", "false"}}),
		// the same enum written differently: constants in two const blocks, in two files, numbered by iota
		{Name: "enum-string-two-const-blocks", Go: "EBk§", Kinds: []string{"$ref:EBk§"}, Comp: "EBk§", Exp: &ExpSchema{Kind: "enum", Values: []string{"a", "b", "c"}, Base: "string"},
			Decl: "type EBk§ string\n\nconst EBk§A EBk§ = \"a\"\n\nconst (\n\tEBk§B EBk§ = \"b\"\n\tEBk§C EBk§ = \"c\"\n)\n"},
		{Name: "enum-string-constants-in-two-files", Go: "EFl§", Kinds: []string{"$ref:EFl§"}, Comp: "EFl§", Exp: &ExpSchema{Kind: "enum", Values: []string{"a", "b", "c"}, Base: "string"},
			Decl: "type EFl§ string\n\nconst (\n\tEFl§A EFl§ = \"a\"\n\tEFl§B EFl§ = \"b\"\n)\n", Extra: "const EFl§C EFl§ = \"c\"\n"},
		{Name: "enum-int-iota", Go: "EIo§", Kinds: []string{"$ref:EIo§"}, Comp: "EIo§", Exp: &ExpSchema{Kind: "enum", Values: []string{"0", "1", "2"}, Base: "integer"},
			Decl: "type EIo§ int\n\nconst (\n\tEIo§Zero EIo§ = iota\n\tEIo§One\n\tEIo§Two\n)\n"},
		{Name: "alias-typedef", Go: "TS§", Kinds: []string{"$ref:TS§", "string"}, Decl: "type TS§ string\n", Comp: "TS§", Exp: &ExpSchema{Kind: "alias", Base: "string"}},
		{Name: "alias-typedef-int", Go: "TI§", Kinds: []string{"$ref:TI§", "integer"}, Decl: "type TI§ int\n", Comp: "TI§", Exp: &ExpSchema{Kind: "alias", Base: "integer"}},
		// an assigned alias of a primitive next to constants of that primitive type which have nothing to do with it
		{Name: "alias-assigned-int-beside-unrelated-constants", Go: "AI§", Kinds: []string{"$ref:AI§", "integer"}, Decl: "type AI§ = int\n\nconst Unrelated§ int = 7\n\nconst (\n\tOtherA§ int = 1\n\tOtherB§ int = 2\n)\n", Comp: "AI§", Exp: &ExpSchema{Kind: "alias", Base: "integer"}},
		{Name: "alias-assigned-string-beside-unrelated-constants", Go: "ASu§", Kinds: []string{"$ref:ASu§", "string"}, Decl: "type ASu§ = string\n\nconst Greeting§ string = \"hello\"\n", Comp: "ASu§", Exp: &ExpSchema{Kind: "alias", Base: "string"}},
		{Name: "alias-assigned", Go: "AS§", Kinds: []string{"$ref:AS§", "string"}, Decl: "type AS§ = string\n", Comp: "AS§", Exp: &ExpSchema{Kind: "alias", Base: "string"}},
	}
}

type tagVariant struct {
	Name     string
	Field    string // Go field name
	Tag      string // raw tag content
	JSONName string // "" = not JSON-visible
	Required bool
}

func tagVariants() []tagVariant {
	return []tagVariant{
		{"plain", "F", "", "F", false},
		{"json-name", "F", `json:"x"`, "x", false},
		{"json-omitempty", "F", `json:"x,omitempty"`, "x", false},
		{"json-dash", "F", `json:"-"`, "", false},
		{"unexported", "f", "", "", false},
		{"required", "F", `json:"x" validate:"required"`, "x", true},
		{"validate-only", "F", `validate:"required"`, "F", true},
		// encoding/json: an empty name keeps the field name; "-," (with the comma) is the literal key "-"
		{"json-options-without-name", "F", `json:",omitempty"`, "F", false},
		{"json-dash-comma", "F", `json:"-,"`, "-", false},
		{"json-dash-comma-required", "F", `json:"-,omitempty" validate:"required"`, "-", true},
	}
}

func (b *typeBuilder) leafCases(tier string) {
	for _, lf := range leaves() {
		for _, tv := range tagVariants() {
			for _, usage := range []string{"return", "body"} {
				if tier != "thorough" && usage == "body" && tv.Name != "plain" {
					continue
				}
				id := b.nextID()
				sub := func(s string) string { return strings.ReplaceAll(s, "§", id) }
				L := "L" + id
				tag := ""
				if tv.Tag != "" {
					tag = " `" + tv.Tag + "`"
				}
				decl := sub(lf.Decl) + "\ntype " + L + " struct {\n\tKeep string `json:\"keep\"`\n\t" + tv.Field + " " + sub(lf.Go) + tag + "\n}\n"
				es := ExpSchema{Kind: "struct", Props: map[string][]string{"keep": {"string"}}}
				exp := TypeExpect{Schemas: map[string]ExpSchema{}}
				if tv.JSONName != "" {
					var kinds []string
					for _, k := range lf.Kinds {
						kinds = append(kinds, sub(k))
					}
					es.Props[tv.JSONName] = kinds
					if tv.Required {
						es.Required = []string{tv.JSONName}
					}
				}
				if lf.Exp != nil {
					// a field's type is reachable whether or not the field is JSON-visible is not stated: only demand
					// the component when the field is visible, and never forbid it
					if tv.JSONName != "" {
						exp.Schemas[sub(lf.Comp)] = *lf.Exp
					} else {
						exp.Optional = append(exp.Optional, sub(lf.Comp))
					}
				}
				exp.Schemas[L] = es
				var imports []string
				if strings.Contains(lf.Go, "time.") {
					imports = []string{"time"}
				}
				b.addCase(id, "type-leaf", decl, []scen.Method{usageMethod(id, usage, L)}, exp,
					map[string]string{"leaf": lf.Name, "tag": tv.Name, "usage": usage}, imports)
				if lf.Extra != "" {
					b.cases[len(b.cases)-1].Unit.Files = map[string]string{id + "/more_consts.go": sub(lf.Extra)}
				}
			}
		}
	}
}

// metamorphic pairs: the same declarations, once used plainly and once with an extra usage-site feature.
type MetaPair struct {
	Base, Variant string   // scenario ids
	Types         []string // type name stems whose components must be identical modulo the namespace
	What          string
}

func (b *typeBuilder) metamorphic(tier string) []MetaPair {
	var pairs []MetaPair
	decl := func(id, fieldTag string) string {
		return strings.ReplaceAll("type K§ string\n\nconst (\n\tK§A K§ = \"a\"\n\tK§B K§ = \"b\"\n)\n\ntype TS§ string\n\ntype Inner§ struct {\n\tV int `json:\"v\"`\n}\n\n"+
			"type Outer§ struct {\n\tKind K§ `json:\"kind\""+fieldTag+"`\n\tAl TS§ `json:\"al\"`\n\tIn Inner§ `json:\"in\"`\n\tN int `json:\"n\"`\n}\n", "§", id)
	}
	type variant struct {
		name     string
		fieldTag string
		methods  func(id string) []scen.Method
	}
	plain := func(id string) []scen.Method { return []scen.Method{usageMethod(id, "return", "Outer"+id)} }
	variants := []variant{
		{"field-validate-oneof", ` validate:"oneof=a"`, plain},
		{"field-validate-required", ` validate:"required"`, plain},
		{"second-route-uses-type", "", func(id string) []scen.Method {
			m2 := scen.Method{Name: "Second" + id, Verb: "GET", Route: scen.S("/second"), Ret: "Inner" + id}
			return append(plain(id), m2)
		}},
		{"body-with-validator", "", func(id string) []scen.Method {
			m2 := scen.Method{Name: "Second" + id, Verb: "PUT", Route: scen.S("/second"), Params: []scen.Param{{Name: "b", Type: "Outer" + id, In: "Body", Validate: "required"}}}
			return append(plain(id), m2)
		}},
		{"query-enum-with-validator", "", func(id string) []scen.Method {
			m2 := scen.Method{Name: "Second" + id, Verb: "GET", Route: scen.S("/second"), Params: []scen.Param{{Name: "k", Type: "K" + id, In: "Query", Validate: "oneof=a"}}}
			return append(plain(id), m2)
		}},
		{"query-alias-with-validator", "", func(id string) []scen.Method {
			m2 := scen.Method{Name: "Second" + id, Verb: "GET", Route: scen.S("/second"), Params: []scen.Param{{Name: "k", Type: "TS" + id, In: "Query", Validate: "min=3"}}}
			return append(plain(id), m2)
		}},
		{"pointer-usage", "", func(id string) []scen.Method {
			m2 := scen.Method{Name: "Second" + id, Verb: "GET", Route: scen.S("/second"), Ret: "*Outer" + id}
			return append(plain(id), m2)
		}},
	}
	for _, v := range variants {
		baseID := b.nextID()
		b.addCase(baseID, "type-meta", decl(baseID, ""), plain(baseID), TypeExpect{Schemas: metaExpect(baseID, false)}, map[string]string{"meta": "base:" + v.name}, nil)
		varID := b.nextID()
		b.addCase(varID, "type-meta", decl(varID, v.fieldTag), v.methods(varID), TypeExpect{Schemas: metaExpect(varID, strings.Contains(v.fieldTag, "required"))}, map[string]string{"meta": v.name}, nil)
		types := []string{"K", "TS", "Inner", "Outer"}
		if v.fieldTag != "" {
			types = []string{"K", "TS", "Inner"} // the variant edits Outer's own declaration
		}
		pairs = append(pairs, MetaPair{Base: baseID, Variant: varID, Types: types, What: v.name})
	}
	return pairs
}

func metaExpect(id string, kindRequired bool) map[string]ExpSchema {
	outer := ExpSchema{Kind: "struct", Props: map[string][]string{"kind": {"$ref:K" + id}, "al": {"$ref:TS" + id, "string"}, "in": {"$ref:Inner" + id}, "n": {"integer"}}}
	if kindRequired {
		outer.Required = []string{"kind"}
	}
	return map[string]ExpSchema{
		"K" + id:     {Kind: "enum", Values: []string{"a", "b"}, Base: "string"},
		"TS" + id:    {Kind: "alias", Base: "string"},
		"Inner" + id: {Kind: "struct", Props: map[string][]string{"v": {"integer"}}},
		"Outer" + id: outer,
	}
}

// cross-package types: a struct from another package of the same scenario
func (b *typeBuilder) crossPackage() {
	id := b.nextID()
	other := "type Far" + id + " struct {\n\tZ string `json:\"z\"`\n}\n"
	decl := "type Near" + id + " struct {\n\tFar far" + id + ".Far" + id + " `json:\"far\"`\n\tList []far" + id + ".Far" + id + " `json:\"list\"`\n}\n"
	ctl := scen.Controller{Name: "C" + id, Pkg: id, Prefix: scen.S("/" + id), Tag: scen.S("T" + id), Methods: []scen.Method{usageMethod(id, "return", "Near"+id)}}
	u := scen.Unit{Controllers: []scen.Controller{ctl}, Decls: map[string]string{id: decl, id + "/far" + id: other},
		Imports: map[string][]string{id: {scen.ModulePath + "/" + id + "/far" + id}}}
	b.cases = append(b.cases, scen.Case{ID: id, Unit: u, Features: map[string]string{"family": "type-cross-package"}, Desc: map[string]any{"decls": decl, "other": other}})
	b.exp[id] = TypeExpect{Schemas: map[string]ExpSchema{
		"Near" + id: {Kind: "struct", Props: map[string][]string{"far": {"$ref:Far" + id}, "list": {"array<$ref:Far" + id + ">"}}},
		"Far" + id:  {Kind: "struct", Props: map[string][]string{"z": {"string"}}},
	}}
}

// composites: compositions the two-struct graphs do not reach - pointers around and inside containers, three
// levels of nesting, an embedded pointer, embedding across packages, and containers of enums and aliases.
func (b *typeBuilder) composites() {
	type comp struct {
		name  string
		field string   // Go type of Root.F (§)
		kinds []string // acceptable kinds of property f (§)
		embed string   // embedded field text instead of F ("" = none)
		allOf string   // expected allOf member (§)
	}
	comps := []comp{
		{"pointer-to-slice-of-struct", "*[]Leaf§", []string{"array<$ref:Leaf§>"}, "", ""},
		{"slice-of-pointers-to-struct", "[]*Leaf§", []string{"array<$ref:Leaf§>"}, "", ""},
		{"slice-of-slices-of-struct", "[][]Leaf§", []string{"array<array<$ref:Leaf§>>"}, "", ""},
		{"map-of-slices-of-struct", "map[string][]Leaf§", []string{"map<array<$ref:Leaf§>>"}, "", ""},
		{"map-of-pointers-to-struct", "map[string]*Leaf§", []string{"map<$ref:Leaf§>"}, "", ""},
		{"slice-of-enum", "[]CE§", []string{"array<$ref:CE§>"}, "", ""},
		{"map-of-enum", "map[string]CE§", []string{"map<$ref:CE§>"}, "", ""},
		{"slice-of-alias", "[]CA§", []string{"array<$ref:CA§>", "array<string>"}, "", ""},
		{"pointer-to-enum", "*CE§", []string{"$ref:CE§"}, "", ""},
		{"embedded-pointer", "", nil, "*Leaf§", "Leaf§"},
		{"three-levels", "Mid§", []string{"$ref:Mid§"}, "", ""},
		{"three-levels-declared-in-one-grouped-type-block", "Mid§", []string{"$ref:Mid§"}, "", ""},
	}
	for _, c := range comps {
		for _, usage := range []string{"return", "body"} {
			id := b.nextID()
			sub := func(s string) string { return strings.ReplaceAll(s, "§", id) }
			decl := sub("type Leaf§ struct {\n\tV int `json:\"v\"`\n}\n\ntype Mid§ struct {\n\tLeaf Leaf§ `json:\"leaf\"`\n\tLeaves []Leaf§ `json:\"leaves\"`\n}\n\ntype CE§ string\n\nconst (\n\tCE§A CE§ = \"a\"\n\tCE§B CE§ = \"b\"\n)\n\ntype CA§ string\n\n")
			root := ExpSchema{Kind: "struct", Props: map[string][]string{"keep": {"string"}}}
			exp := TypeExpect{Schemas: map[string]ExpSchema{}}
			leaf := ExpSchema{Kind: "struct", Props: map[string][]string{"v": {"integer"}}}
			if c.embed != "" {
				decl += sub("type Root§ struct {\n\tKeep string `json:\"keep\"`\n\t" + c.embed + "\n}\n")
				root.AllOf = []string{sub(c.allOf)}
				exp.Schemas[sub("Leaf§")] = leaf
			} else {
				decl += sub("type Root§ struct {\n\tKeep string `json:\"keep\"`\n\tF " + c.field + " `json:\"f\"`\n}\n")
				var kinds []string
				for _, k := range c.kinds {
					kinds = append(kinds, sub(k))
				}
				root.Props["f"] = kinds
				switch {
				case strings.Contains(c.field, "Leaf§"):
					exp.Schemas[sub("Leaf§")] = leaf
				case strings.Contains(c.field, "Mid§"):
					exp.Schemas[sub("Leaf§")] = leaf
					exp.Schemas[sub("Mid§")] = ExpSchema{Kind: "struct", Props: map[string][]string{"leaf": {sub("$ref:Leaf§")}, "leaves": {sub("array<$ref:Leaf§>")}}}
				case strings.Contains(c.field, "CE§"):
					exp.Schemas[sub("CE§")] = ExpSchema{Kind: "enum", Values: []string{"a", "b"}, Base: "string"}
				case strings.Contains(c.field, "CA§"):
					exp.Optional = append(exp.Optional, sub("CA§")) // a primitive alias may be inlined or referenced
				}
			}
			if strings.Contains(c.name, "grouped-type-block") {
				// the same declarations as one `type ( ... )` block (the constants stay outside)
				parts := strings.Split(decl, "\n\n")
				var specs, rest []string
				for _, p := range parts {
					if strings.HasPrefix(p, "type ") && strings.Contains(p, " struct {") {
						specs = append(specs, "\t"+strings.ReplaceAll(strings.TrimPrefix(strings.TrimSpace(p), "type "), "\n", "\n\t"))
					} else if strings.TrimSpace(p) != "" {
						rest = append(rest, p)
					}
				}
				decl = "type (\n" + strings.Join(specs, "\n\n") + "\n)\n\n" + strings.Join(rest, "\n\n") + "\n"
			}
			exp.Schemas[sub("Root§")] = root
			for _, n := range []string{"Leaf§", "Mid§", "CE§", "CA§"} {
				if _, ok := exp.Schemas[sub(n)]; !ok && !contains(exp.Optional, sub(n)) {
					exp.Absent = append(exp.Absent, sub(n))
				}
			}
			b.addCase(id, "type-composite", decl, []scen.Method{usageMethod(id, usage, sub("Root§"))}, exp, map[string]string{"composite": c.name, "usage": usage}, nil)
		}
	}
}

// fieldDocs: several fields of the same special type (time.Time, []byte) and of plain types, each with a doc comment
// of its own, one of them deprecated: what a property says beyond its type comes from its own field only.
func (b *typeBuilder) fieldDocs() {
	for _, usage := range []string{"return", "body"} {
		id := b.nextID()
		decl := "type Doc" + id + " struct {\n" +
			"\t// first stamp\n\tT1 time.Time `json:\"t1\"`\n" +
			"\t// second stamp\n\t// @Deprecated\n\tT2 time.Time `json:\"t2\"`\n" +
			"\t// first blob\n\tB1 []byte `json:\"b1\"`\n" +
			"\t// second blob\n\tB2 []byte `json:\"b2\" validate:\"required\"`\n" +
			"\t// first word\n\tS1 string `json:\"s1\"`\n" +
			"\t// second word\n\tS2 string `json:\"s2\" validate:\"oneof=a b\"`\n" +
			"\tT3 time.Time `json:\"t3\"`\n\tB3 []byte `json:\"b3\"`\n}\n"
		exp := TypeExpect{Schemas: map[string]ExpSchema{"Doc" + id: {Kind: "struct",
			Props:    map[string][]string{"t1": {"string"}, "t2": {"string"}, "t3": {"string"}, "b1": {"string"}, "b2": {"string"}, "b3": {"string"}, "s1": {"string"}, "s2": {"string"}},
			Required: []string{"b2"},
			Docs:     map[string]string{"t1": "first stamp", "t2": "second stamp", "t3": "", "b1": "first blob", "b2": "second blob", "b3": "", "s1": "first word", "s2": "second word"}}}}
		b.addCase(id, "type-field-docs", decl, []scen.Method{usageMethod(id, usage, "Doc"+id)}, exp, map[string]string{"usage": usage}, []string{"time"})
	}
}

func contains(l []string, s string) bool {
	for _, x := range l {
		if x == s {
			return true
		}
	}
	return false
}

// dotImported: the model package is dot-imported by the controller's file, so its types are written without a qualifier.
func (b *typeBuilder) dotImported() {
	id := b.nextID()
	other := "type Dot" + id + " struct {\n\tZ string `json:\"z\"`\n\tK []DotKind" + id + " `json:\"k\"`\n}\n\ntype DotKind" + id + " string\n\nconst (\n\tDotKind" + id + "A DotKind" + id + " = \"a\"\n)\n"
	ctl := scen.Controller{Name: "C" + id, Pkg: id, Prefix: scen.S("/" + id), Tag: scen.S("T" + id), Methods: []scen.Method{usageMethod(id, "return", "Dot"+id)}}
	u := scen.Unit{Controllers: []scen.Controller{ctl}, Decls: map[string]string{id + "/dotted" + id: other},
		Imports: map[string][]string{id: {". " + scen.ModulePath + "/" + id + "/dotted" + id}}}
	b.cases = append(b.cases, scen.Case{ID: id, Unit: u, Features: map[string]string{"family": "type-dot-import"}, Desc: map[string]any{"other": other, "controller": ctl}})
	b.exp[id] = TypeExpect{Schemas: map[string]ExpSchema{
		"Dot" + id:     {Kind: "struct", Props: map[string][]string{"z": {"string"}, "k": {"array<$ref:DotKind" + id + ">"}}},
		"DotKind" + id: {Kind: "enum", Values: []string{"a"}, Base: "string"},
	}}
}

// Types builds the C07 family.
func Types(tier string) (Family, map[string]TypeExpect, []MetaPair) {
	b := &typeBuilder{exp: map[string]TypeExpect{}}
	b.graphs(tier)
	b.leafCases(tier)
	b.composites()
	b.fieldDocs()
	b.dotImported()
	pairs := b.metamorphic(tier)
	b.crossPackage()
	return Family{Name: "types", Cases: b.cases, BaseCfg: DefaultCfg, PackSize: 60}, b.exp, pairs
}

func SortedKeys[V any](m map[string]V) []string {
	ks := make([]string, 0, len(m))
	for k := range m {
		ks = append(ks, k)
	}
	sort.Strings(ks)
	return ks
}
