package c10

// C18 (diagnostics point at the construct they complain about) is decided on the same perturbation space as
// C10: every diagnostic the real validator produces for every (base, single perturbation) under every position
// variant is checked against an independent go/parser view of the generated sources.

import (
	"fmt"
	"go/ast"
	"go/parser"
	"go/token"
	"os"
	"path/filepath"
	"regexp"
	"strings"
	"unicode/utf8"

	"verif/internal/core"
	"verif/internal/fam"
	"verif/internal/scen"
)

var documentedCodes = map[string]bool{}

func init() {
	for _, c := range strings.Fields(`annotation-unknown annotation-invalid-in-context annotation-duplicate annotation-duplicate-value annotation-mutually-exclusive
		annotation-value-should-not-exist annotation-value-must-exist annotation-value-invalid annotation-properties-should-not-exist annotation-property-should-not-exist
		annotation-properties-must-exist annotation-properties-invalid annotation-properties-missing-key annotation-properties-invalid-value-for-key annotation-description-should-exist
		method-too-many-of-annotation method-missing-required-annotation method-annotation-not-allowed linker-route-missing-path-reference linker-unreferenced-parameter
		linker-multiple-parameter-refs linker-path-annotation-invalid-reference linker-duplicate-path-param linker-duplicate-path-alias-ref linker-duplicate-url-parameter
		linker-incomplete-attribute controller-missing-tag receiver-invalid-body receiver-parameter-not-primitive receiver-return-values-invalid-signature
		receiver-return-value-is-not-an-error receiver-missing-security unsupported-feature route-conflict`) {
		documentedCodes[c] = true
	}
}

type variant struct {
	Name string
	F    func(u *scen.Unit, id string)
}

func variants() []variant {
	return []variant{
		{"plain", func(u *scen.Unit, id string) {}},
		{"multibyte-free-text-first", func(u *scen.Unit, id string) {
			m := &u.Controllers[0].Methods[0]
			m.Lead = []string{"// héllo wörld ✓ — ünïcode first", "//"}
		}},
		{"other-controller-first-in-file", func(u *scen.Unit, id string) {
			u.Controllers[0].File = "shared.go"
			first := scen.Controller{Name: "A" + id + "First", File: "shared.go", Pkg: u.Controllers[0].Pkg, Prefix: scen.S("/" + id + "/first"), Tag: scen.S("T" + id + "f"),
				Methods: []scen.Method{{Name: "Fine" + id, Verb: "GET", Route: scen.S("/fine"), Lead: []string{"// ünïcode ✓ description of an unrelated method"}}}}
			// same file: render() names files after the controller, so both controllers must share a name prefix file -> use File of methods instead
			u.Controllers = append([]scen.Controller{first}, u.Controllers...)
		}},
		{"doc-comments-end-with-a-multi-line-block-comment", func(u *scen.Unit, id string) {
			// a doc comment group may end with a /* ... */ block spanning several lines: ranges over the doc comment end
			// at the block's last line, not on its first
			c := &u.Controllers[len(u.Controllers)-1]
			c.Extra = append(c.Extra, "/* trailing notes of the controller,", "   which run over", "   three lines */")
			m := &c.Methods[0]
			m.Extra = append(m.Extra, "/* trailing notes of the method", "   over two lines */")
		}},
		{"method-in-other-file", func(u *scen.Unit, id string) {
			u.Controllers[0].Methods[0].File = "zz_methods.go"
		}},
		{"short-names-occurring-earlier-in-the-line", func(u *scen.Unit, id string) {
			// rename every parameter to a single letter that already occurs in its annotation's name ("a" in @Path, "e" in @Header ...)
			m := &u.Controllers[0].Methods[0]
			letters := map[string]string{"Path": "a", "Query": "u", "Header": "e", "FormField": "o", "Body": "y"}
			used := map[string]bool{}
			rename := map[string]string{}
			for _, l := range m.Extra {
				mm := annRe.FindStringSubmatch(l)
				if mm == nil {
					continue
				}
				nn := letters[mm[1]]
				for used[nn] {
					nn += "x"
				}
				if _, done := rename[mm[2]]; !done {
					rename[mm[2]] = nn
					used[nn] = true
				}
			}
			for i, l := range m.Extra {
				if mm := annRe.FindStringSubmatch(l); mm != nil {
					m.Extra[i] = strings.Replace(l, "("+mm[2], "("+rename[mm[2]], 1)
				}
			}
			for i := range m.Params {
				if nn, ok := rename[m.Params[i].Name]; ok {
					m.Params[i].Name = nn
				}
			}
			if m.Route != nil {
				r := *m.Route
				for old, nn := range rename {
					r = strings.ReplaceAll(r, "{"+old+"}", "{"+nn+"}")
				}
				m.Route = &r
			}
			if u.Controllers[0].Prefix != nil {
				r := *u.Controllers[0].Prefix
				for old, nn := range rename {
					r = strings.ReplaceAll(r, "{"+old+"}", "{"+nn+"}")
				}
				u.Controllers[0].Prefix = &r
			}
		}},
	}
}

var annRe = regexp.MustCompile(`^// @(Path|Query|Header|FormField|Body)\(([A-Za-z0-9_]+)`)
var quotedRe = regexp.MustCompile(`'([^']*)'`)

// extent is the line span (0-based, inclusive) of a construct: its doc comment through the end of its declaration.
type extent struct{ from, to int }

type fileView struct {
	lines   []string
	methods map[string]extent // function name -> extent
	types   map[string]extent
	docs    map[string]extent // function/type name -> doc comment extent
}

func viewFile(src string) (*fileView, error) {
	fset := token.NewFileSet()
	f, err := parser.ParseFile(fset, "x.go", src, parser.ParseComments)
	if err != nil {
		return nil, err
	}
	fv := &fileView{lines: strings.Split(src, "\n"), methods: map[string]extent{}, types: map[string]extent{}, docs: map[string]extent{}}
	line := func(p token.Pos) int { return fset.Position(p).Line - 1 }
	for _, d := range f.Decls {
		switch x := d.(type) {
		case *ast.FuncDecl:
			e := extent{line(x.Pos()), line(x.End())}
			if x.Doc != nil {
				e.from = line(x.Doc.Pos())
				fv.docs[x.Name.Name] = extent{line(x.Doc.Pos()), line(x.Doc.End())}
			}
			fv.methods[x.Name.Name] = e
		case *ast.GenDecl:
			for _, s := range x.Specs {
				if ts, ok := s.(*ast.TypeSpec); ok {
					e := extent{line(x.Pos()), line(x.End())}
					if x.Doc != nil {
						e.from = line(x.Doc.Pos())
						fv.docs[ts.Name.Name] = extent{line(x.Doc.Pos()), line(x.Doc.End())}
					}
					fv.types[ts.Name.Name] = e
				}
			}
		}
	}
	return fv, nil
}

func textUnder(fv *fileView, d scen.Diag) (string, bool) {
	if d.SL != d.EL || d.SL < 0 || d.SL >= len(fv.lines) {
		return "", false
	}
	r := []rune(fv.lines[d.SL])
	if d.SC < 0 || d.EC > len(r) || d.SC > d.EC {
		return "", false
	}
	return string(r[d.SC:d.EC]), true
}

// expectedCodes maps an unambiguous single perturbation to the code (and severity 1=error) the violated rule documents.
func expectedCode(pertName string) string {
	switch {
	case pertName == "verb->FOO" || pertName == "verb->get" || pertName == "verb->Options":
		return "annotation-value-invalid" // verbs are upper-case words: anything else is an invalid value, not an unsupported verb
	case pertName == "verb->HEAD" || pertName == "verb->OPTIONS":
		return "unsupported-feature"
	case pertName == "param.add-unbound":
		return "linker-unreferenced-parameter"
	case strings.HasSuffix(pertName, ".rename-ref"):
		return "linker-path-annotation-invalid-reference"
	case strings.HasPrefix(pertName, "route.{") && strings.HasSuffix(pertName, ".duplicate"):
		return "linker-duplicate-url-parameter"
	case pertName == "route.add-{extra}":
		return "linker-route-missing-path-reference"
	case pertName == "ret.last->string" || pertName == "ret.last->multi-line-generic":
		return "receiver-return-value-is-not-an-error"
	case pertName == "ret.add-third" || pertName == "ret.add-third-with-multi-line-last":
		return "receiver-return-values-invalid-signature"
	}
	return ""
}

func Main18(tier, replay string) {
	run := core.NewRun("C18", tier)
	scratch := scen.MkScratch("c18")
	defer os.RemoveAll(scratch)
	// depth <= 1 under every position variant; pairs of perturbations (several diagnostics on one route, possibly
	// the same one produced by two passes of the linker) under the plain variant: quick = pairs touching only
	// annotations and route templates, thorough = every pair
	base, info := buildCases("thorough")
	vs := variants()
	var cases []scen.Case
	type meta struct {
		ci      caseInfo
		variant string
	}
	metas := map[string]meta{}
	n := 0
	for _, c := range base {
		ci := info[c.ID]
		if ci.Route.Sibling {
			continue // C18 uses the plain perturbation space
		}
		if len(ci.Perts) == 2 && tier != "thorough" {
			linkOnly := true
			for _, p := range ci.Perts {
				if !linkLevel(p) {
					linkOnly = false
				}
			}
			if !linkOnly {
				continue
			}
		}
		for vi, v := range vs {
			if len(ci.Perts) == 2 && vi > 0 {
				break
			}
			id := fmt.Sprintf("d%04d", n)
			n++
			u := render(id, ci.Route)
			v.F(&u, id)
			feat := map[string]string{"variant": v.Name, "base": c.Features["base"], "perturbations": c.Features["perturbations"]}
			cases = append(cases, scen.Case{ID: id, Unit: u, Features: feat, Desc: map[string]any{"route": ci.Route, "perturbations": ci.Perts, "variant": v.Name}})
			metas[id] = meta{ci, v.Name}
		}
	}
	packed := cases
	var singles []scen.Case
	if replay != "" {
		_, v := core.LoadReplay(replay)
		id, _ := v.Case.(map[string]any)["id"].(string)
		packed = nil
		for _, c := range cases {
			if c.ID == id {
				singles = append(singles, c)
			}
		}
		if len(singles) == 0 {
			core.Harness("replay: scenario %q not in the enumeration", id)
		}
	}
	f := fam.Family{Name: "diag", Cases: cases, BaseCfg: fam.DefaultCfg, PackSize: 40}
	diagsSeen, withDiags := 0, 0
	views := map[string]*fileView{}
	rn := fam.RunOpt(f, scratch, nil, packed, singles, true, func(v fam.View) {
		m := metas[v.Case.ID]
		if len(v.Diags) > 0 {
			withDiags++
		}
		rep := func(oracle, what string, d scen.Diag, extra ...string) {
			ex := append([]string{"code", d.Code}, extra...)
			run.Report(core.Violation{Oracle: oracle, Features: v.Feat(ex...), What: fmt.Sprintf("[%s %s] %s — diagnostic: %q at %s:%d:%d-%d:%d", d.Code, sevName(d.Severity), what, stripID(d.Message, v.Case.ID), filepath.Base(d.File), d.SL, d.SC, d.EL, d.EC), Case: v.Case, Observed: d})
		}
		ctl := v.Case.Unit.Controllers[len(v.Case.Unit.Controllers)-1] // the perturbed controller is last
		method := ctl.Methods[0]
		_ = method
		seen := map[string]bool{}
		for _, d := range v.Diags {
			diagsSeen++
			run.AddValidated(1)
			run.Outcome(d.Code+"/"+sevName(d.Severity), 1)
			// (a) documented code
			if !documentedCodes[d.Code] {
				rep("code-is-documented", "code is not in the documented set", d)
			}
			// (b) names the file that contains the offending controller or method
			rel, err := filepath.Rel(v.Outcome.Dir, d.File)
			if err != nil || strings.HasPrefix(rel, "..") {
				rep("names-the-containing-file", "file path is outside the project", d)
				continue
			}
			want := ""
			for _, c := range v.Case.Unit.Controllers {
				if !strings.HasPrefix(d.Entity, "Controller "+c.Name) {
					continue
				}
				want = c.Pkg + "/ctl_" + strings.ToLower(c.Name) + ".go"
				if c.File != "" {
					want = c.Pkg + "/" + c.File
				}
				if i := strings.Index(d.Entity, "/Receiver "); i >= 0 {
					for _, mm := range c.Methods {
						if mm.Name == d.Entity[i+len("/Receiver "):] && mm.File != "" {
							want = c.Pkg + "/" + mm.File
						}
					}
				}
			}
			ctlFile := ""
			for _, c := range v.Case.Unit.Controllers {
				if strings.HasPrefix(d.Entity, "Controller "+c.Name) {
					ctlFile = c.Pkg + "/ctl_" + strings.ToLower(c.Name) + ".go"
					if c.File != "" {
						ctlFile = c.Pkg + "/" + c.File
					}
				}
			}
			if rel != want && rel != ctlFile {
				rep("names-the-containing-file", fmt.Sprintf("diagnostic names %s, the construct is declared in %s", rel, want), d)
				continue
			}
			src, ok := v.Outcome.Project.Files[rel]
			if !ok {
				rep("names-the-containing-file", "no such file in the project", d)
				continue
			}
			key := v.Outcome.Dir + "|" + rel
			fv := views[key]
			if fv == nil {
				fv, err = viewFile(src)
				if err != nil {
					core.Harness("generated file does not parse: %v", err)
				}
				views[key] = fv
			}
			// (c) range inside the file, start not after end
			if d.SL < 0 || d.SC < 0 || d.EL >= len(fv.lines) || d.SL > d.EL || (d.SL == d.EL && d.SC > d.EC) {
				rep("range-inside-file", "range is outside the file or starts after it ends", d)
				continue
			}
			if d.SL < len(fv.lines) && d.SC > utf8.RuneCountInString(fv.lines[d.SL]) || d.EC > utf8.RuneCountInString(fv.lines[d.EL]) {
				rep("range-inside-file", fmt.Sprintf("columns exceed the line length (line %d has %d characters, line %d has %d)", d.SL, utf8.RuneCountInString(fv.lines[d.SL]), d.EL, utf8.RuneCountInString(fv.lines[d.EL])), d)
				continue
			}
			// (d) inside the comment or declaration of the construct it concerns (named by the diagnostic's entity path)
			// a receiver's diagnostic may also point into its controller's comment (e.g. a controller-route parameter)
			inside, found := false, false
			var exts []string
			for _, el := range strings.Split(d.Entity, "/") {
				var ext extent
				var ok bool
				if strings.HasPrefix(el, "Receiver ") {
					ext, ok = fv.methods[strings.TrimPrefix(el, "Receiver ")]
				} else {
					ext, ok = fv.types[strings.TrimPrefix(el, "Controller ")]
				}
				if !ok {
					continue
				}
				found = true
				exts = append(exts, fmt.Sprintf("%d-%d", ext.from, ext.to))
				if d.SL >= ext.from && d.EL <= ext.to {
					inside = true
				}
			}
			if !found {
				rep("names-the-containing-file", "no construct named by the diagnostic's entity path is declared in the file the diagnostic names", d)
				continue
			}
			if !inside {
				rep("range-inside-construct", fmt.Sprintf("range lines %d-%d are outside the comment+declaration of every construct on its entity path (lines %v)", d.SL, d.EL, exts), d)
			}
			// (e) value diagnostics cover text equal to the value
			if isValueDiag(d) {
				if q := quotedRe.FindStringSubmatch(d.Message); q != nil {
					txt, ok := textUnder(fv, d)
					// the value lives inside the annotation's parentheses: the range must start where it is written there
					if ok && d.SL < len(fv.lines) {
						line := []rune(fv.lines[d.SL])
						if open := strings.IndexRune(string(line), '('); open >= 0 {
							openRunes := utf8.RuneCountInString(string(line)[:open])
							rest := string(line[openRunes+1:])
							at := strings.Index(rest, txt)
							if txt == "" || at < 0 || openRunes+1+utf8.RuneCountInString(rest[:at]) != d.SC {
								rep("value-diagnostic-covers-the-value", fmt.Sprintf("the range starts at column %d; inside the parentheses %q first occurs at column %d", d.SC, txt, openRunes+1+max(at, 0)), d, "variant-short-names", fmt.Sprint(m.variant == "short-names-occurring-earlier-in-the-line"))
								continue
							}
						}
					}
					if !ok || (txt != q[1] && txt != "{"+q[1]+"}") {
						rep("value-diagnostic-covers-the-value", fmt.Sprintf("the range covers %q, the diagnostic is about value %q", txt, q[1]), d, "variant-short-names", fmt.Sprint(m.variant == "short-names-occurring-earlier-in-the-line"))
					}
				}
			}
			// (f) no diagnostic twice
			k := fmt.Sprintf("%s|%d:%d-%d:%d|%s|%s", d.File, d.SL, d.SC, d.EL, d.EC, d.Code, d.Message)
			if seen[k] {
				rep("no-duplicate-diagnostic", "the same diagnostic is listed twice for the scenario", d)
			}
			seen[k] = true
		}
		// (g) expected code and severity for unambiguous single perturbations
		if len(m.ci.Perts) == 1 {
			want := expectedCode(m.ci.Perts[0])
			if len(m.ci.Route.Rets) == 0 {
				want = "receiver-return-values-invalid-signature"
			}
			if want != "" {
				ok := false
				for _, d := range v.Diags {
					if d.Code == want && d.Severity == 1 {
						ok = true
					}
				}
				run.AddValidated(1)
				if !ok && v.Hard == "" {
					var got []string
					for _, d := range v.Diags {
						got = append(got, d.Code+"/"+sevName(d.Severity))
					}
					run.Report(core.Violation{Oracle: "code-and-severity-of-the-violated-rule", Features: v.Feat("expected-code", want), What: fmt.Sprintf("perturbation %s must produce %s/error, got %v", m.ci.Perts[0], want, got), Case: v.Case})
				}
			}
		}
		// body/form combination rules have their own documented code
		for _, d := range v.Diags {
			if strings.HasPrefix(d.Message, "Body parameter is invalid") || strings.HasPrefix(d.Message, "Form parameter is invalid") {
				if d.Code != "receiver-invalid-body" {
					rep("code-and-severity-of-the-violated-rule", "a body/form combination error carries a code documented for another rule", d, "expected-code", "receiver-invalid-body")
				}
			}
		}
	})
	// (h) the command's error text lists no diagnostic twice — checked on single-scenario projects
	textChecked := 0
	var textCases []scen.Case
	for i, c := range cases {
		if replay != "" {
			textCases = singles
			break
		}
		if metas[c.ID].variant == "plain" && len(metas[c.ID].ci.Bad) > 0 && (tier == "thorough" || i%3 == 0) {
			textCases = append(textCases, c)
		}
	}
	rn2 := fam.RunOpt(f, scratch, nil, nil, textCases, true, func(v fam.View) {
		txt := v.Outcome.Res.ErrorText
		if txt == "" {
			return
		}
		if os.Getenv("VERIF_DEBUG") != "" {
			fmt.Println("DEBUG error text:\n" + txt)
		}
		textChecked++
		run.AddValidated(1)
		count := map[string]int{}
		for _, l := range strings.Split(txt, "\n") {
			l = strings.TrimSpace(l)
			if strings.Contains(l, " at ") && strings.Contains(l, ".go:") {
				count[l]++
			}
		}
		for l, c := range count {
			if c > 1 {
				nErr := 0
				for _, d := range v.Diags {
					if d.Severity == 1 {
						nErr++
					}
				}
				run.Report(core.Violation{Oracle: "error-text-lists-each-diagnostic-once", Features: v.Feat("error-diagnostics-on-one-receiver", fmt.Sprint(min(nErr, 2))),
					What: fmt.Sprintf("the error text repeats a line %d times: %s", c, stripID(l, v.Case.ID)), Case: v.Case, Observed: txt})
				break
			}
		}
	})
	run.AddStates(int64(len(cases)))
	run.AddTransitions(rn.Projects.Load() + rn2.Projects.Load())
	run.Set("diagnostics_checked", diagsSeen)
	run.Set("scenarios_with_diagnostics", withDiags)
	run.Set("error_texts_checked", textChecked)
	run.Sample(cases[1])
	run.Sample(cases[len(cases)-1])
	run.Bound = fmt.Sprintf("every diagnostic produced for 6 base routes x every single perturbation x %d position variants, plus pairs of perturbations in place (%d scenarios in all); error text of every rejected plain scenario%s", len(vs), len(cases), map[string]string{"quick": " (every third)", "thorough": ""}[tier])
	run.Rule = "state = (base, perturbation, position variant); transition = one run of the real validator over a generated project; validated = diagnostics compared with an independent go/parser view (file, bounds, construct extent, value text, documented code/severity, duplicates)"
	run.Assumptions = []string{"the value a diagnostic is about is the first single-quoted token of its message", "columns are compared in characters (runes)"}
	os.RemoveAll(scratch)
	run.Finish()
}

func sevName(s int) string {
	return map[int]string{1: "error", 2: "warning", 3: "info", 4: "hint"}[s]
}

func isValueDiag(d scen.Diag) bool {
	switch d.Code {
	case "annotation-value-invalid", "unsupported-feature", "linker-route-missing-path-reference", "linker-duplicate-url-parameter", "linker-multiple-parameter-refs":
		return true
	case "linker-path-annotation-invalid-reference":
		return strings.HasPrefix(d.Message, "@")
	}
	return false
}
