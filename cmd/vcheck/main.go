// vcheck runs one property check: vcheck <Cxx> <quick|thorough|replay> [path]
package main

import (
	"fmt"
	"os"

	"verif/internal/c01"
	"verif/internal/c02"
	"verif/internal/c03"
	"verif/internal/c04"
	"verif/internal/c05"
	"verif/internal/c06"
	"verif/internal/c07"
	"verif/internal/c08"
	"verif/internal/c11"
	"verif/internal/c09"
	"verif/internal/c10"
	"verif/internal/c12"
	"verif/internal/c13"
	"verif/internal/c14"
	"verif/internal/c15"
	"verif/internal/c19"
	"verif/internal/c20"
	"verif/internal/c16"
	"verif/internal/c17"
	"verif/internal/scen"
)

var checks = map[string]func(tier, replay string){
	"C01": c01.Main,
	"C02": c02.Main,
	"C03": c03.Main,
	"C04": c04.Main,
	"C05": c05.Main,
	"C06": c06.Main,
	"C07": c07.Main,
	"C08": c08.Main,
	"C11": c11.Main,
	"C09": c09.Main,
	"C10": c10.Main,
	"C18": c10.Main18,
	"C12": c12.Main,
	"C13": c13.Main,
	"C14": c14.Main,
	"C15": c15.Main,
	"C19": c19.Main,
	"C20": c20.Main,
	"C16": c16.Main,
	"C17": c17.Main,
}

func main() {
	if len(os.Args) == 4 && os.Args[1] == "worker" {
		scen.WorkerMain(os.Args[2], os.Args[3])
		return
	}
	if len(os.Args) < 3 {
		fmt.Println("usage: vcheck <Cxx> <quick|thorough|replay> [path]")
		os.Exit(2)
	}
	id, mode := os.Args[1], os.Args[2]
	f, ok := checks[id]
	if !ok {
		fmt.Printf("HARNESS-ERROR unknown check %s\n", id)
		os.Exit(2)
	}
	switch mode {
	case "quick", "thorough":
		f(mode, "")
	case "replay":
		if len(os.Args) < 4 {
			fmt.Println("HARNESS-ERROR replay needs a path")
			os.Exit(2)
		}
		f("quick", os.Args[3])
	default:
		fmt.Printf("HARNESS-ERROR unknown mode %s\n", mode)
		os.Exit(2)
	}
}
