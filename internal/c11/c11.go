// Package c11 decides C11 (the 3.0 and 3.1 documents describe the same API) by generating both documents for
// every scenario of the signature, type, layout, security and validator-rule families and comparing their
// dialect-neutral normal forms operation by operation and component by component.
package c11

import (
	"fmt"
	"os"
	"sort"
	"strings"

	"verif/internal/c01"
	"verif/internal/core"
	"verif/internal/fam"
	"verif/internal/scen"
	"verif/internal/spec"
)

func diffClass(d string) string {
	// the last path element of the first difference names the aspect that differs
	if i := strings.Index(d, ":"); i > 0 {
		p := d[:i]
		if j := strings.LastIndexByte(p, '/'); j >= 0 {
			return p[j+1:]
		}
	}
	return "?"
}

func Main(tier, replay string) {
	run := core.NewRun("C11", tier)
	scratch := scen.MkScratch("c11")
	defer os.RemoveAll(scratch)
	sig, _ := fam.Signature(tier)
	typ, _, _ := fam.Types(tier)
	lay := fam.Family{Name: "layout", Cases: c01.Cases(tier), BaseCfg: fam.DefaultCfg, PackSize: 100}
	sec := fam.Security()
	// the security family runs under a configuration with every kind of security scheme, so that the document-level
	// sections (securitySchemes, info, servers) are compared on something richer than two API keys
	sec.BaseCfg = func() map[string]any {
		c := fam.DefaultCfg()
		oc := c["openapiGeneratorConfig"].(map[string]any)
		oc["securitySchemes"] = append(oc["securitySchemes"].([]any),
			map[string]any{"description": "bearer", "name": "s3", "type": "http", "scheme": "bearer"},
			map[string]any{"description": "oidc", "name": "s4", "type": "openIdConnect", "openIdConnectUrl": "https://id.example.com/.well-known/openid-configuration"},
			map[string]any{"description": "oauth code", "name": "s5", "type": "oauth2",
				"flows": map[string]any{"authorizationCode": map[string]any{"authorizationUrl": "https://id.example.com/auth", "tokenUrl": "https://id.example.com/token", "scopes": map[string]any{"read": "read things"}}}},
			map[string]any{"description": "oauth implicit", "name": "s6", "type": "oauth2",
				"flows": map[string]any{"implicit": map[string]any{"authorizationUrl": "https://id2.example.com/auth", "scopes": map[string]any{"write": "write things"}}}},
			map[string]any{"description": "oauth machine", "name": "s7", "type": "oauth2",
				"flows": map[string]any{"clientCredentials": map[string]any{"tokenUrl": "https://id3.example.com/token", "scopes": map[string]any{}},
					"password": map[string]any{"tokenUrl": "https://id3.example.com/pw", "refreshUrl": "https://id3.example.com/refresh", "scopes": map[string]any{"admin": "everything"}}}})
		return c
	}
	val := fam.Validators(tier)
	col := fam.Collisions()
	seenProject := map[string]bool{}
	var replayID string
	if replay != "" {
		_, v := core.LoadReplay(replay)
		replayID, _ = v.Case.(map[string]any)["id"].(string)
	}
	compared, accepted := 0, 0
	for _, f := range []fam.Family{sig, typ, lay, sec, val, col} {
		var packed, singles []scen.Case
		for i, c := range f.Cases {
			if f.Name == "name-collision" && replayID == "" {
				singles = append(singles, c) // literal colliding names: each project on its own
				continue
			}
			if replayID != "" {
				if c.ID == replayID {
					singles = append(singles, c)
				}
				continue
			}
			if c.Features["mutual"] == "true" || c.Features["prefix"] == "§" || c.Features["route"] == "§" {
				continue
			}
			packed = append(packed, c)
			if tier == "thorough" && i%5 == 0 {
				singles = append(singles, c)
			}
		}
		rn := fam.Run(f, scratch, nil, packed, singles, func(v fam.View) {
			if !v.Accepted {
				run.Outcome(f.Name+": not accepted", 1)
				return
			}
			accepted++
			rep := func(oracle, what string, extra ...string) {
				run.Report(core.Violation{Oracle: oracle, Features: v.Feat(extra...), What: what, Case: v.Case})
			}
			if d30, d31 := v.Docs["3.0.0"], v.Docs["3.1.0"]; d30 != nil && d31 != nil && !seenProject[f.Name+v.Outcome.Dir] {
				seenProject[f.Name+v.Outcome.Dir] = true
				for _, sct := range []struct {
					name string
					a, b any
				}{{"components.securitySchemes", d30.SecuritySchemes(), d31.SecuritySchemes()}, {"info", d30["info"], d31["info"]}, {"servers", d30["servers"], d31["servers"]}} {
					var ds []string
					spec.Diff(sct.a, sct.b, "", &ds)
					compared++
					run.AddValidated(1)
					if len(ds) > 0 {
						sort.Strings(ds)
						run.Report(core.Violation{Oracle: "same-document-sections", Features: map[string]string{"section": sct.name, "family": f.Name}, What: fmt.Sprintf("%s differs between 3.0.0 and 3.1.0: %s", sct.name, strings.Join(ds, " ;; ")), Case: v.Case})
					}
				}
			}
			ops30, ops31 := map[string]spec.Op{}, map[string]spec.Op{}
			for _, op := range v.Ops("3.0.0") {
				ops30[op.Key()] = op
			}
			for _, op := range v.Ops("3.1.0") {
				ops31[op.Key()] = op
			}
			k30, k31 := fam.SortedKeys(ops30), fam.SortedKeys(ops31)
			if strings.Join(k30, ";") != strings.Join(k31, ";") {
				rep("same-operations", fmt.Sprintf("3.0.0 documents %v, 3.1.0 documents %v", k30, k31))
			}
			same := true
			for k, a := range ops30 {
				b, ok := ops31[k]
				if !ok {
					continue
				}
				var ds []string
				spec.Diff(spec.NeutralOp(a), spec.NeutralOp(b), "", &ds)
				compared++
				run.AddValidated(1)
				if len(ds) > 0 {
					same = false
					rep("same-operation-contract", fmt.Sprintf("%s differs between 3.0.0 and 3.1.0: %s", k, strings.Join(ds, " ;; ")), "aspect", diffClass(ds[0]))
				}
			}
			s30, s31 := v.Schemas("3.0.0"), v.Schemas("3.1.0")
			if f.Name == "name-collision" && v.Docs["3.0.0"] != nil && v.Docs["3.1.0"] != nil {
				// the colliding names are literal (not namespaced) and the project holds nothing else: every component counts
				s30, s31 = v.Docs["3.0.0"].Schemas(), v.Docs["3.1.0"].Schemas()
			}
			n30, n31 := fam.SortedKeys(s30), fam.SortedKeys(s31)
			if strings.Join(n30, ";") != strings.Join(n31, ";") {
				rep("same-components", fmt.Sprintf("3.0.0 has components %v, 3.1.0 has %v", n30, n31))
			}
			for name, a := range s30 {
				b, ok := s31[name]
				if !ok {
					continue
				}
				var ds []string
				spec.Diff(spec.Neutral(a), spec.Neutral(b), "", &ds)
				compared++
				run.AddValidated(1)
				if len(ds) > 0 {
					same = false
					sort.Strings(ds)
					extra := []string{"aspect", diffClass(ds[0])}
					if len(ds) == 1 && diffClass(ds[0]) == "enum" && sameModuloQuotes(spec.M(a)["enum"], spec.M(b)["enum"]) {
						extra = append(extra, "enum-diff", "3.0-strings-vs-3.1-typed")
					}
					rep("same-component-schema", fmt.Sprintf("component %s differs between 3.0.0 and 3.1.0: %s", strings.ReplaceAll(name, v.Case.ID, "§"), strings.Join(ds, " ;; ")), extra...)
				}
			}
			run.Outcome(fmt.Sprintf("%s: same=%v", f.Name, same), 1)
		})
		run.AddStates(int64(len(packed)))
		run.AddTransitions(rn.Projects.Load())
	}
	run.Set("scenario_views_accepted", accepted)
	run.Set("operation_and_component_pairs_compared", compared)
	run.Sample(map[string]any{"family": "validators", "case": val.Cases[0]})
	run.Sample(map[string]any{"family": "signature", "case": sig.Cases[len(sig.Cases)-1]})
	run.Bound = fmt.Sprintf("signature (%d), type (%d), layout (%d), security (%d) validator-rule (%d) and name-collision (%d) scenario families; 3.0.0 vs 3.1.0 for each", len(sig.Cases), len(typ.Cases), len(lay.Cases), len(sec.Cases), len(val.Cases), len(col.Cases))
	run.Rule = "state = one scenario; transition = one run of the real pipeline generating both documents; validated = (operation | component) pairs whose dialect-neutral normal forms were compared (paths, verbs, ids, tags, parameters, bodies, response codes, refs, security, component types/properties/required/enums/composition/bounds; per project also securitySchemes, info and servers)"
	run.Assumptions = []string{"3.0 nullable == 3.1 null type; 3.0 boolean exclusive bounds == 3.1 numeric exclusive bounds", "the content-less 'default' response of the 3.0 generator is dialect noise", "descriptions, titles and summaries are not compared"}
	os.RemoveAll(scratch)
	run.Finish()
}

func sameModuloQuotes(a, b any) bool {
	norm := func(v any) string {
		var out []string
		for _, x := range spec.L(v) {
			out = append(out, strings.Trim(spec.Canon(x), `"`))
		}
		sort.Strings(out)
		return strings.Join(out, ",")
	}
	return norm(a) == norm(b)
}
