// Package spec reads OpenAPI 3.0 / 3.1 documents (as emitted by gleece) into plain maps and offers the
// dialect-neutral views the oracles need. It deliberately uses neither kin-openapi nor libopenapi.
package spec

import (
	"encoding/json"
	"fmt"
	"sort"
	"strings"
)

type Doc map[string]any

var Verbs = []string{"get", "post", "put", "delete", "patch", "head", "options", "trace"}

func Parse(b string) (Doc, error) {
	var d Doc
	dec := json.NewDecoder(strings.NewReader(b))
	dec.UseNumber()
	if err := dec.Decode(&d); err != nil {
		return nil, err
	}
	return d, nil
}

func M(v any) map[string]any {
	m, _ := v.(map[string]any)
	return m
}

func L(v any) []any {
	l, _ := v.([]any)
	return l
}

func Str(v any) string {
	s, _ := v.(string)
	return s
}

// Op is one operation of the document.
type Op struct {
	Verb string // upper case
	Path string
	Raw  map[string]any
}

func (o Op) Key() string { return o.Verb + " " + o.Path }

// Ops lists all operations, sorted.
func (d Doc) Ops() []Op {
	var out []Op
	for path, item := range M(d["paths"]) {
		for _, v := range Verbs {
			if op := M(M(item)[v]); op != nil {
				out = append(out, Op{Verb: strings.ToUpper(v), Path: path, Raw: op})
			}
		}
	}
	sort.Slice(out, func(i, j int) bool { return out[i].Key() < out[j].Key() })
	return out
}

func (o Op) OperationID() string { return Str(o.Raw["operationId"]) }
func (o Op) Deprecated() bool    { b, _ := o.Raw["deprecated"].(bool); return b }
func (o Op) Tags() []string {
	var t []string
	for _, x := range L(o.Raw["tags"]) {
		t = append(t, Str(x))
	}
	return t
}

// Security returns the operation's alternatives as ordered "scheme[scope,scope]" lists; ok=false when the key is absent.
func (o Op) Security() (alts [][]string, ok bool) {
	raw, present := o.Raw["security"]
	if !present {
		return nil, false
	}
	for _, alt := range L(raw) {
		var checks []string
		m := M(alt)
		var names []string
		for n := range m {
			names = append(names, n)
		}
		sort.Strings(names)
		for _, n := range names {
			var scopes []string
			for _, s := range L(m[n]) {
				scopes = append(scopes, Str(s))
			}
			checks = append(checks, n+"["+strings.Join(scopes, ",")+"]")
		}
		alts = append(alts, checks)
	}
	return alts, true
}

// Schemas returns components.schemas.
func (d Doc) Schemas() map[string]any {
	return M(M(d["components"])["schemas"])
}

func (d Doc) SecuritySchemes() map[string]any {
	return M(M(d["components"])["securitySchemes"])
}

// Canon renders any JSON value canonically (sorted keys) for comparisons and messages.
func Canon(v any) string {
	b, _ := json.Marshal(v)
	return string(b)
}

// SchemaKind reduces a schema (3.0 or 3.1 dialect) to a dialect-neutral one-line description:
// "$ref:Name", "string", "integer", "array<...>", "map<...>", "object", with "?" for nullable.
func SchemaKind(s any) string {
	m := M(s)
	if m == nil {
		return "<none>"
	}
	if r := Str(m["$ref"]); r != "" {
		return "$ref:" + r[strings.LastIndexByte(r, '/')+1:]
	}
	nullable := false
	if b, _ := m["nullable"].(bool); b {
		nullable = true
	}
	typ := ""
	switch t := m["type"].(type) {
	case string:
		typ = t
	case []any:
		for _, x := range t {
			if Str(x) == "null" {
				nullable = true
			} else {
				typ = Str(x)
			}
		}
	}
	for _, comb := range []string{"allOf", "oneOf", "anyOf"} {
		if l := L(m[comb]); len(l) > 0 && typ == "" {
			var parts []string
			for _, x := range l {
				if Str(M(x)["type"]) == "null" {
					nullable = true
					continue
				}
				parts = append(parts, SchemaKind(x))
			}
			if len(parts) == 1 {
				typ = parts[0]
			} else {
				typ = comb + "(" + strings.Join(parts, ",") + ")"
			}
		}
	}
	switch typ {
	case "array":
		typ = "array<" + SchemaKind(m["items"]) + ">"
	case "object":
		if ap, ok := m["additionalProperties"]; ok {
			if _, isBool := ap.(bool); !isBool {
				typ = "map<" + SchemaKind(ap) + ">"
			}
		}
	}
	if f := Str(m["format"]); f != "" {
		typ += "(" + f + ")"
	}
	if nullable {
		typ += "?"
	}
	if typ == "" {
		typ = "<untyped>"
	}
	return typ
}

func Sprintf(format string, a ...any) string { return fmt.Sprintf(format, a...) }
