// Package c19 decides C19 (re-running analysis on an unchanged project is idempotent and cache-transparent) by
// running every history over {GenerateGraph, Validate, GenerateIntermediate, Run} up to a depth on one
// GleecePipeline value per history (no state merging), for several generated projects, and comparing every
// result with the first one of its history and with a brand-new pipeline.
package c19

import (
	"fmt"
	"os"
	"path/filepath"
	"strings"

	"verif/internal/c01"
	"verif/internal/core"
	"verif/internal/fam"
	"verif/internal/scen"
)

func histories(depth int) [][]string {
	ops := []string{"G", "V", "I", "R"}
	var out [][]string
	var rec func(cur []string)
	rec = func(cur []string) {
		if len(cur) > 0 {
			out = append(out, append([]string(nil), cur...))
		}
		if len(cur) == depth {
			return
		}
		for _, o := range ops {
			rec(append(cur, o))
		}
	}
	rec(nil)
	return out
}

type project struct {
	Name  string
	Cases []scen.Case
	Patch func(p *scen.Project) // optional: changes to the rendered project (files, globs)
}

// partialGlobs narrows the controller globs of the first few packages to their ctl_*.go files and drops a further,
// un-globbed controller file into each of those packages: only globbed files may ever contribute, in every
// analysis of a session.
func partialGlobs(p *scen.Project) {
	globs, _ := p.Config["commonConfig"].(map[string]any)["controllerGlobs"].([]string)
	var out []string
	for i, g := range globs {
		if i >= 6 || !strings.HasSuffix(g, "/*.go") {
			out = append(out, g)
			continue
		}
		pkg := strings.TrimSuffix(strings.TrimPrefix(g, "./"), "/*.go")
		out = append(out, "./"+pkg+"/ctl_*.go")
		name := "Adm" + strings.ReplaceAll(pkg, "/", "")
		tmp := scen.NewProject()
		scen.Render(tmp, []scen.Unit{{Controllers: []scen.Controller{{Name: name, Pkg: pkg, File: "unglobbed_admin.go", Prefix: scen.S("/" + pkg + "/admin"), Tag: scen.S("T" + name),
			Methods: []scen.Method{{Name: "Purge" + name, Verb: "DELETE", Route: scen.S("/purge")}}}}}})
		p.Files[pkg+"/unglobbed_admin.go"] = tmp.Files[pkg+"/unglobbed_admin.go"]
	}
	scen.Set(p.Config, "commonConfig.controllerGlobs", out)
}


func pick(cases []scen.Case, pred func(scen.Case) bool, n int) []scen.Case {
	var out []scen.Case
	for _, c := range cases {
		if pred(c) && len(out) < n {
			out = append(out, c)
		}
	}
	return out
}

func projects(tier string) []project {
	sig, _ := fam.Signature("quick")
	typ, _, _ := fam.Types("quick")
	lay := c01.Cases("quick")
	layAll := c01.AllCases("quick")
	otherFile := func(c scen.Case) bool {
		return strings.Contains(c.Features["deviations"], "method-in-other-file") || strings.Contains(c.Features["deviations"], "nested-package")
	}
	val := fam.Validators("quick")
	sec := fam.Security()
	fa := func(name string) func(scen.Case) bool {
		return func(c scen.Case) bool { return c.Features["family"] == name }
	}
	// an enum whose constants repeat a value (an alias of a default, a synonym), used as a parameter and as a field
	dupEnum := func() scen.Case {
		id := "q0001"
		decl := "type St" + id + " string\n\nconst (\n\tSt" + id + "Active St" + id + " = \"active\"\n\tSt" + id + "Enabled St" + id + " = \"active\"\n\tSt" + id + "Retired St" + id + " = \"retired\"\n\tSt" + id + "Zeta St" + id + " = St" + id + "Retired\n)\n\ntype Holder" + id + " struct {\n\tS St" + id + " `json:\"s\"`\n}\n"
		m := scen.Method{Name: "Op" + id, Verb: "GET", Route: scen.S("/op"), Params: []scen.Param{{Name: "st", Type: "St" + id, In: "Query"}}, Ret: "Holder" + id}
		ctl := scen.Controller{Name: "C" + id, Pkg: id, Prefix: scen.S("/" + id), Tag: scen.S("T" + id), Methods: []scen.Method{m}}
		return scen.Case{ID: id, Unit: scen.Unit{Controllers: []scen.Controller{ctl}, Decls: map[string]string{id: decl}}, Features: map[string]string{"family": "enum-with-repeated-values"}}
	}()
	// two controllers with the same struct name in different packages (a cache keyed by the simple name confuses them)
	twins := func() scen.Case {
		id := "q0002"
		mk := func(pkg string) scen.Controller {
			m := scen.Method{Name: "Get" + pkg + id, Verb: "GET", Route: scen.S("/" + pkg + "/{id}"), Params: []scen.Param{{Name: "id", Type: "string", In: "Path"}}, Ret: "string"}
			return scen.Controller{Name: "Twin" + id, Pkg: id + "/" + pkg, Prefix: scen.S("/" + id + "/" + pkg), Tag: scen.S("T" + pkg + id), Methods: []scen.Method{m}}
		}
		return scen.Case{ID: id, Unit: scen.Unit{Controllers: []scen.Controller{mk("za"), mk("zb")}}, Features: map[string]string{"family": "controller-twins"}}
	}()
	ps := []project{
		{Name: "signatures: every return shape (incl. map), map/struct bodies, 3-parameter orders", Cases: append(append(
			pick(sig.Cases, func(c scen.Case) bool {
				return c.Features["family"] == "sig-return" && c.Features["response"] == "" && c.Features["errresps"] == ""
			}, 24),
			pick(sig.Cases, func(c scen.Case) bool {
				return c.Features["family"] == "sig-1param" && c.Features["in"] == "Body" && c.Features["kind"] != "body-string" && c.Features["validate"] == "" && c.Features["ptr"] == "false"
			}, 8)...),
			pick(sig.Cases, fa("sig-3param"), 10)...)},
		{Name: "types: graphs without mutual recursion, leaves, cross-package, an enum with repeated values", Cases: append(append(pick(typ.Cases, func(c scen.Case) bool { return c.Features["family"] == "type-graph" && c.Features["mutual"] == "false" }, 24), pick(typ.Cases, fa("type-leaf"), 14)...), append(pick(typ.Cases, fa("type-cross-package"), 1), dupEnum)...)},
		{Name: "layout and security: prefixes, verbs, hidden, security shapes (with route-conflict warnings), controllers whose methods live in other files, two same-named controllers in different packages", Cases: append(append(pick(lay, func(c scen.Case) bool { return c.Features["prefix"] == "/§/a" }, 20), pick(sec.Cases, func(scen.Case) bool { return true }, 12)...), append(pick(layAll, otherFile, 6), twins)...)},
	}
	ps = append(ps, project{Name: "partially globbed packages: every package also holds a controller file outside controllerGlobs",
		Cases: append(pick(lay, func(c scen.Case) bool { return c.Features["prefix"] == "/§" && c.Features["hidden"] == "false" }, 8), pick(sig.Cases, fa("sig-return"), 6)...), Patch: partialGlobs})
	if tier == "thorough" {
		ps = append(ps,
			project{Name: "signatures: 1-parameter kinds", Cases: pick(sig.Cases, func(c scen.Case) bool { return c.Features["family"] == "sig-1param" && c.Features["validate"] == "" }, 40)},
			project{Name: "signatures: 2-parameter", Cases: pick(sig.Cases, fa("sig-2param"), 40)},
			project{Name: "validators", Cases: pick(val.Cases, func(c scen.Case) bool { return c.Features["site"] == "field" }, 40)},
			project{Name: "types: metamorphic and leaves", Cases: append(pick(typ.Cases, fa("type-meta"), 14), pick(typ.Cases, func(c scen.Case) bool { return c.Features["family"] == "type-leaf" && c.Features["tag"] == "required" }, 20)...)},
			project{Name: "single controller", Cases: pick(lay, func(c scen.Case) bool {
				return c.Features["prefix"] == "/§" && c.Features["route"] == "/x/{id}" && c.Features["verb"] == "GET"
			}, 1)},
		)
	}
	return ps
}

func firstNonEmpty(ss ...string) string {
	for _, s := range ss {
		if s != "" {
			if len(s) > 400 {
				s = s[:400]
			}
			return s
		}
	}
	return "(no panic text recorded)"
}

func Main(tier, replay string) {
	run := core.NewRun("C19", tier)
	scratch := scen.MkScratch("c19")
	defer os.RemoveAll(scratch)
	depth := 3
	if tier == "thorough" {
		depth = 5
	}
	hs := histories(depth)
	var replayOps []string
	var replayProject string
	if replay != "" {
		_, v := core.LoadReplay(replay)
		m, _ := v.Case.(map[string]any)
		replayProject, _ = m["project"].(string)
		for _, o := range m["history"].([]any) {
			replayOps = append(replayOps, o.(string))
		}
		hs = [][]string{replayOps}
	}
	ps := projects(tier)
	rn := &scen.Runner{Scratch: scratch, BaseCfg: fam.DefaultCfg}
	total := 0
	for pi, p := range ps {
		if replayProject != "" && p.Name != replayProject {
			continue
		}
		proj := rn.BuildProject(p.Cases)
		if p.Patch != nil {
			p.Patch(proj)
		}
		dir := filepath.Join(scratch, fmt.Sprintf("proj%d", pi))
		if err := proj.Write(dir); err != nil {
			core.Harness("cannot write project: %v", err)
		}
		// reference: brand-new pipelines
		ref := scen.RunJob(scen.Job{Dir: dir, Config: "./gleece.config.json", Histories: [][]string{{"R"}, {"G", "V"}, {"G"}}})
		if ref.Crashed != "" || len(ref.Histories) != 3 {
			core.Harness("reference run failed for project %q: %s", p.Name, ref.FailureSummary())
		}
		if len(ref.Histories[0].Steps) < 1 || len(ref.Histories[1].Steps) < 2 {
			// even a brand-new pipeline does not get through one analysis of an accepted project
			run.Report(core.Violation{Oracle: "history-runs-to-completion", Features: map[string]string{"project": p.Name, "session": "fresh"}, What: "a brand-new pipeline panicked while analysing the project: " + firstNonEmpty(ref.Histories[0].Panic, ref.Histories[1].Panic), Case: map[string]any{"project": p.Name, "history": []string{"R"}}})
			continue
		}
		refMeta := ref.Histories[0].Steps[0]
		refDiag := ref.Histories[1].Steps[1]
		if refMeta.Err != "" {
			core.Harness("project %q is not accepted: %s", p.Name, refMeta.Err)
		}
		run.Set(fmt.Sprintf("project_%d", pi), fmt.Sprintf("%s: %d scenarios, graph %d nodes / %d edges", p.Name, len(p.Cases), refMeta.Nodes, refMeta.Edges))
		// shard the histories over worker processes
		const chunk = 6
		var chunks [][][]string
		for i := 0; i < len(hs); i += chunk {
			j := min(i+chunk, len(hs))
			chunks = append(chunks, hs[i:j])
		}
		results := make([]*scen.Result, len(chunks))
		scen.Pool(0, len(chunks), func(i int) {
			results[i] = scen.RunJob(scen.Job{Dir: dir, Config: "./gleece.config.json", Histories: chunks[i], Timeout: 600})
		})
		for ci, res := range results {
			if res.Crashed != "" {
				run.Report(core.Violation{Oracle: "history-runs-to-completion", Features: map[string]string{"project": p.Name}, What: "worker crashed: " + res.Crashed, Case: map[string]any{"project": p.Name, "history": chunks[ci][0]}})
				continue
			}
			for _, h := range res.Histories {
				total++
				run.AddStates(1)
				run.AddTransitions(int64(len(h.Ops)))
				checkHistory(run, p.Name, h, refMeta, refDiag)
			}
		}
		os.RemoveAll(dir)
	}
	run.Set("histories_run", total)
	run.Sample(map[string]any{"project": ps[0].Name, "history": []string{"G", "I", "R"}})
	run.Sample(map[string]any{"project": ps[len(ps)-1].Name, "history": []string{"R", "V", "G"}})
	run.Bound = fmt.Sprintf("all %d histories over {GenerateGraph, Validate, GenerateIntermediate, Run} of length <= %d, each on its own pipeline value, on %d generated projects", len(histories(depth)), depth, len(ps))
	run.Rule = "state = one operation history on one GleecePipeline value (no merging); transition = one pipeline operation; validated = step results compared with the first such result of the history and with a brand-new pipeline (metadata incl. import serials, diagnostics multiset, node/edge sets through the public graph API)"
	run.Assumptions = []string{"diagnostic message texts and the order of import-name lists (built from sets) are not compared", "results of operations issued before any GenerateGraph are not judged"}
	os.RemoveAll(scratch)
	run.Finish()
}

func checkHistory(run *core.Run, project string, h scen.HistResult, refMeta, refDiag scen.HistStep) {
	caseOf := map[string]any{"project": project, "history": h.Ops}
	feat := func(extra ...string) map[string]string {
		f := map[string]string{"project": project, "length": fmt.Sprint(len(h.Ops))}
		for i := 0; i+1 < len(extra); i += 2 {
			f[extra[i]] = extra[i+1]
		}
		return f
	}
	if h.Panic != "" {
		run.Report(core.Violation{Oracle: "history-runs-to-completion", Features: feat(), What: "panic: " + h.Panic, Case: caseOf})
		return
	}
	first := -1
	for i, op := range h.Ops {
		if op == "G" || op == "R" {
			first = i
			break
		}
	}
	if first < 0 {
		run.Outcome("no GenerateGraph in history (not judged)", 1)
		return
	}
	seen := map[string]bool{}
	firstMeta := ""
	for i := first; i < len(h.Steps); i++ {
		st := h.Steps[i]
		op := st.Op
		run.AddValidated(1)
		if st.Err != "" {
			run.Report(core.Violation{Oracle: "operation-succeeds-like-a-fresh-session", Features: feat("op", op, "position", fmt.Sprint(i)), What: fmt.Sprintf("step %d (%s) of %v failed: %s — a brand-new pipeline accepts the project", i, op, h.Ops, firstLine(st.Err)), Case: caseOf})
			continue
		}
		if op == "I" || op == "R" {
			if st.Meta != refMeta.Meta {
				prior := strings.Join(h.Ops[:i], "")
				run.Report(core.Violation{Oracle: "metadata-equals-fresh-session", Features: feat("op", op, "prior", prior), What: fmt.Sprintf("step %d (%s) of %v yields metadata %s, a brand-new pipeline's Run() yields %s", i, op, h.Ops, st.Meta, refMeta.Meta), Case: caseOf})
			} else if firstMeta != "" && st.Meta != firstMeta {
				run.Report(core.Violation{Oracle: "metadata-equals-first-analysis", Features: feat("op", op), What: fmt.Sprintf("step %d (%s) of %v yields different metadata than the first analysis of the same session", i, op, h.Ops), Case: caseOf})
			}
			if firstMeta == "" {
				firstMeta = st.Meta
			}
		}
		if op == "V" && st.Diags != refDiag.Diags {
			run.Report(core.Violation{Oracle: "diagnostics-equal-fresh-session", Features: feat("op", op, "prior", strings.Join(h.Ops[:i], "")), What: fmt.Sprintf("step %d (Validate) of %v yields a different diagnostic multiset than a brand-new pipeline", i, h.Ops), Case: caseOf})
		}
		// the graph does not grow: Validate never changes it, and repeating an operation never changes it
		if i > first && (op == "V" || seen[op] || (op == "G" && seen["R"]) || (op == "I" && seen["R"])) {
			prev := h.Steps[i-1]
			if st.Graph != prev.Graph {
				run.Report(core.Violation{Oracle: "graph-does-not-change-on-repetition", Features: feat("op", op), What: fmt.Sprintf("step %d (%s) of %v changed the symbol graph: %d nodes/%d edges -> %d nodes/%d edges", i, op, h.Ops, prev.Nodes, prev.Edges, st.Nodes, st.Edges), Case: caseOf})
			}
		}
		seen[op] = true
	}
	run.Outcome(fmt.Sprintf("judged history of length %d", len(h.Ops)), 1)
}

func firstLine(s string) string {
	if i := strings.IndexByte(s, '\n'); i >= 0 {
		s = s[:i]
	}
	if len(s) > 200 {
		s = s[:200]
	}
	return s
}
