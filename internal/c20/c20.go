// Package c20 decides C20 (configuration is validated up front and honoured in the output) by enumerating
// configuration documents — every declared constraint violated in every applicable way, every single and pair of
// optional fields removed, engines x OpenAPI versions x permission strings x pre-existing output files x package
// names x glob sets — and running the real CLI binary on each, with a trap (unparsable Go file inside the globs)
// to observe "before any source analysis" and a decoy controller outside the globs.
package c20

import (
	"encoding/json"
	"fmt"
	"os"
	"path/filepath"
	"strconv"
	"strings"
	"syscall"
	"time"

	"verif/internal/core"
	"verif/internal/rast"
	"verif/internal/scen"
	"verif/internal/spec"
)

type cfgCase struct {
	ID      string
	Name    string
	Feat    map[string]string
	Mutate  func(cfg map[string]any)
	Reject  bool     // violates a declared constraint
	Fields  []string // names (Go field or JSON key) one of which the message must mention
	Trap    bool
	Pre     map[string]os.FileMode // pre-existing output files (relative path -> mode)
	Engine  string
	Version string
}

func baseUnit() scen.Unit {
	s := scen.S
	real := scen.Controller{Name: "RealCtl", Pkg: "api", Prefix: s("/real"), Tag: s("Real"), Methods: []scen.Method{
		{Name: "RealOp", Verb: "GET", Route: s("/op/{id}"), Params: []scen.Param{{Name: "id", Type: "string", In: "Path"}}, Ret: "string", Security: []scen.Sec{{Scheme: "s1", Scopes: []string{"a"}}}},
	}}
	second := scen.Controller{Name: "SecondCtl", Pkg: "api", Prefix: s("/second"), Tag: s("Second"), File: "second.go", Methods: []scen.Method{
		{Name: "SecondOp", Verb: "POST", Route: s("/op")},
	}}
	decoy := scen.Controller{Name: "DecoyCtl", Pkg: "decoy", Prefix: s("/decoy"), Tag: s("Decoy"), Methods: []scen.Method{
		{Name: "DecoyOp", Verb: "GET", Route: s("/op")},
	}}
	return scen.Unit{Controllers: []scen.Controller{real, second, decoy}}
}

func fullConfig(engine, version string) map[string]any {
	cfg := scen.BaseConfig(engine, version, []string{"./api/*.go"})
	scen.Set(cfg, "routesConfig.templateOverrides", nil)
	scen.Set(cfg, "routesConfig.validateResponsePayload", false)
	scen.Set(cfg, "commonConfig.allowPackageLoadFailures", false)
	scen.Set(cfg, "experimentalConfig", map[string]any{"validateTopLevelOnlyEnum": false, "generateEnumValidator": false})
	scen.Set(cfg, "openapiGeneratorConfig.defaultSecurity", map[string]any{"name": "s2", "scopes": []any{"d"}})
	scen.Set(cfg, "openapiGeneratorConfig.securitySchemes", []any{
		scen.APIKeyScheme("s1"),
		map[string]any{"description": "bearer", "name": "s2", "type": "http", "scheme": "bearer"},
		map[string]any{"description": "oidc", "name": "s3", "type": "openIdConnect", "openIdConnectUrl": "https://id.example.com/.well-known/openid-configuration"},
		map[string]any{"description": "oauth", "name": "s4", "type": "oauth2",
			"flows": map[string]any{"authorizationCode": map[string]any{"authorizationUrl": "https://id.example.com/auth", "tokenUrl": "https://id.example.com/token", "scopes": map[string]any{"read": "read things"}}}},
		// further OAuth2 schemes, each with other flow kinds: nothing of one scheme may show up under another
		map[string]any{"description": "oauth implicit", "name": "s5", "type": "oauth2",
			"flows": map[string]any{"implicit": map[string]any{"authorizationUrl": "https://id2.example.com/auth", "scopes": map[string]any{"write": "write things", "read": "read other things"}}}},
		map[string]any{"description": "oauth machine", "name": "s6", "type": "oauth2",
			"flows": map[string]any{"clientCredentials": map[string]any{"tokenUrl": "https://id3.example.com/token", "scopes": map[string]any{}},
				"password": map[string]any{"tokenUrl": "https://id3.example.com/pw", "refreshUrl": "https://id3.example.com/refresh", "scopes": map[string]any{"admin": "everything"}}}},
	})
	return cfg
}

func violations() []cfgCase {
	var out []cfgCase
	add := func(name string, fields []string, f func(cfg map[string]any)) {
		out = append(out, cfgCase{Name: name, Mutate: f, Reject: true, Fields: fields, Trap: true, Engine: "gin", Version: "3.0.0",
			Feat: map[string]string{"family": "violation", "constraint": name}})
	}
	del := func(path string) func(map[string]any) { return func(c map[string]any) { scen.Set(c, path, nil) } }
	set := func(path string, v any) func(map[string]any) { return func(c map[string]any) { scen.Set(c, path, v) } }
	null := json.RawMessage("null")
	// required sections and fields: missing, null, empty
	req := []struct {
		path   string
		fields []string
	}{
		{"routesConfig", []string{"RoutesConfig", "routesConfig", "Engine", "OutputPath", "AuthFileFullPackageName"}},
		{"routesConfig.engine", []string{"Engine", "engine"}},
		{"routesConfig.outputPath", []string{"OutputPath", "outputPath"}},
		{"routesConfig.authorizationConfig", []string{"AuthorizationConfig", "authorizationConfig", "AuthFileFullPackageName"}},
		{"routesConfig.authorizationConfig.authFileFullPackageName", []string{"AuthFileFullPackageName", "authFileFullPackageName"}},
		{"openapiGeneratorConfig", []string{"OpenAPIGeneratorConfig", "openapiGeneratorConfig", "OpenAPI", "Info", "BaseURL", "Title"}},
		{"openapiGeneratorConfig.openapi", []string{"OpenAPI", "openapi"}},
		{"openapiGeneratorConfig.info", []string{"Info", "info", "Title", "Version"}},
		{"openapiGeneratorConfig.info.title", []string{"Title", "title"}},
		{"openapiGeneratorConfig.info.version", []string{"Version", "version"}},
		{"openapiGeneratorConfig.baseUrl", []string{"BaseURL", "baseUrl"}},
		{"openapiGeneratorConfig.specGeneratorConfig", []string{"SpecGeneratorConfig", "specGeneratorConfig", "OutputPath"}},
		{"openapiGeneratorConfig.specGeneratorConfig.outputPath", []string{"OutputPath", "outputPath"}},
		{"openapiGeneratorConfig.info.license.name", []string{"Name", "name"}},
	}
	for _, r := range req {
		add("missing "+r.path, r.fields, del(r.path))
		add("null "+r.path, r.fields, set(r.path, null))
		if !strings.Contains(r.path, "Config") || strings.HasSuffix(r.path, "Path") || strings.HasSuffix(r.path, "Name") {
			add("empty "+r.path, r.fields, set(r.path, ""))
		}
	}
	// enumerations and formats
	for _, v := range []string{"GIN", "express", "gin ", "0"} {
		add("engine="+v, []string{"Engine", "engine"}, set("routesConfig.engine", v))
	}
	for _, v := range []string{"3.0", "3.0.1", "2.0", "3.1", "v3.0.0"} {
		add("openapi="+v, []string{"OpenAPI", "openapi"}, set("openapiGeneratorConfig.openapi", v))
	}
	for _, v := range []string{"not a url", "example.com", "/relative", "http//x"} {
		add("baseUrl="+v, []string{"BaseURL", "baseUrl"}, set("openapiGeneratorConfig.baseUrl", v))
	}
	for _, v := range []string{"888", "07777", "abc", "64", "0o644", "-rw-r--r--", "0644 "} {
		add("outputFilePerms="+v, []string{"OutputFilePerms", "outputFilePerms"}, set("routesConfig.outputFilePerms", v))
	}
	for _, v := range []string{"not-an-email", "a@", "@b.c", ""} {
		add("contact.email="+v, []string{"Email", "email"}, set("openapiGeneratorConfig.info.contact.email", v))
	}
	scheme := func(mut func(s map[string]any)) func(map[string]any) {
		return func(c map[string]any) {
			s := scen.APIKeyScheme("s1")
			mut(s)
			scen.Set(c, "openapiGeneratorConfig.securitySchemes", []any{s, scen.APIKeyScheme("s2")})
		}
	}
	add("securityScheme.type=bogus", []string{"Type", "type"}, scheme(func(s map[string]any) { s["type"] = "bogus" }))
	add("securityScheme.type missing", []string{"Type", "type"}, scheme(func(s map[string]any) { delete(s, "type") }))
	add("securityScheme.in=body", []string{"In", "in"}, scheme(func(s map[string]any) { s["in"] = "body" }))
	add("securityScheme.name missing", []string{"SecurityName", "name", "Name"}, scheme(func(s map[string]any) { delete(s, "name") }))
	add("securityScheme.name=1abc", []string{"SecurityName", "name", "Name"}, scheme(func(s map[string]any) { s["name"] = "1abc" }))
	add("securityScheme.description missing", []string{"Description", "description"}, scheme(func(s map[string]any) { delete(s, "description") }))
	add("securityScheme.scheme=carrier", []string{"Scheme", "scheme"}, scheme(func(s map[string]any) { s["type"] = "http"; s["scheme"] = "carrier"; delete(s, "in"); delete(s, "fieldName") }))
	add("securityScheme.openIdConnectUrl=nope", []string{"OpenIdConnectUrl", "openIdConnectUrl"}, scheme(func(s map[string]any) { s["type"] = "openIdConnect"; s["openIdConnectUrl"] = "nope"; delete(s, "in"); delete(s, "fieldName") }))
	add("securityScheme.fieldName=9x", []string{"FieldName", "fieldName"}, scheme(func(s map[string]any) { s["fieldName"] = "9x" }))
	add("defaultSecurity.name missing", []string{"SchemaName", "name", "Name"}, set("openapiGeneratorConfig.defaultSecurity", map[string]any{"scopes": []any{}}))
	add("defaultSecurity.name=9", []string{"SchemaName", "name", "Name"}, set("openapiGeneratorConfig.defaultSecurity", map[string]any{"name": "9", "scopes": []any{}}))
	add("defaultSecurity.scopes missing", []string{"Scopes", "scopes"}, set("openapiGeneratorConfig.defaultSecurity", map[string]any{"name": "s1"}))
	// wrong JSON kinds (rejected while decoding: still "before analysis", message names the key or its Go field)
	for _, p := range []struct {
		path   string
		v      any
		fields []string
	}{
		{"routesConfig.engine", 5, []string{"engine", "Engine"}},
		{"routesConfig.outputPath", []any{"x"}, []string{"outputPath", "OutputPath"}},
		{"commonConfig.controllerGlobs", "./api/*.go", []string{"controllerGlobs", "ControllerGlobs"}},
		{"openapiGeneratorConfig.securitySchemes", map[string]any{"a": 1}, []string{"securitySchemes", "SecuritySchemes"}},
		{"openapiGeneratorConfig.info", "text", []string{"info", "Info"}},
		{"routesConfig.skipGenerateDateComment", "yes", []string{"skipGenerateDateComment", "SkipGenerateDateComment"}},
	} {
		_ = p.fields // a value of the wrong JSON kind is not among the declared constraints the statement lists: naming is not demanded
		add("wrong-kind "+p.path, nil, set(p.path, p.v))
	}
	return out
}

// optional fields: every single and every pair removed => still accepted and honoured
func optionals() []cfgCase {
	opt := []string{"commonConfig.allowPackageLoadFailures", "routesConfig.packageName", "routesConfig.outputFilePerms", "routesConfig.skipGenerateDateComment",
		"routesConfig.validateResponsePayload", "routesConfig.authorizationConfig.enforceSecurityOnAllRoutes", "openapiGeneratorConfig.info.description",
		"openapiGeneratorConfig.info.termsOfService", "openapiGeneratorConfig.info.license", "openapiGeneratorConfig.defaultSecurity", "experimentalConfig", "openapiGeneratorConfig.info.license.url"}
	var out []cfgCase
	mk := func(paths ...string) {
		out = append(out, cfgCase{Name: "without " + strings.Join(paths, " + "), Engine: "gin", Version: "3.0.0",
			Mutate: func(c map[string]any) {
				for _, p := range paths {
					scen.Set(c, p, nil)
				}
			}, Feat: map[string]string{"family": "optional-removed", "removed": strings.Join(paths, "+")}})
	}
	for i, a := range opt {
		mk(a)
		for _, b := range opt[i+1:] {
			if strings.HasPrefix(b, a+".") || strings.HasPrefix(a, b+".") {
				continue
			}
			mk(a, b)
		}
	}
	return out
}

func honoured(tier string) []cfgCase {
	var out []cfgCase
	engines := []string{"gin", "echo", "mux", "chi", "fiber"}
	versions := []string{"3.0.0", "3.1.0"}
	perms := []string{"<none>", "", "0644", "644", "0600", "0777", "0000", "0400", "0664", "0666"}
	pres := []string{"absent", "0644", "0600", "0755"}
	pkgs := []string{"<none>", "", "routes", "api_gen"}
	for _, e := range engines {
		for _, v := range versions {
			out = append(out, cfgCase{Name: "engine " + e + " openapi " + v, Engine: e, Version: v, Mutate: func(map[string]any) {},
				Feat: map[string]string{"family": "honoured", "engine": e, "openapi": v}})
		}
	}
	for _, p := range perms {
		for _, pre := range pres {
			p, pre := p, pre
			cc := cfgCase{Name: "perms " + p + " over " + pre, Engine: "gin", Version: "3.0.0",
				Feat: map[string]string{"family": "honoured", "perms": p, "pre-existing": pre},
				Mutate: func(c map[string]any) {
					if p == "<none>" {
						scen.Set(c, "routesConfig.outputFilePerms", nil)
					} else {
						scen.Set(c, "routesConfig.outputFilePerms", p)
					}
				}}
			if pre != "absent" {
				m, _ := strconv.ParseUint(pre, 8, 32)
				cc.Pre = map[string]os.FileMode{"dist/routes/gleece.routes.go": os.FileMode(m), "dist/openapi.json": os.FileMode(m)}
			}
			out = append(out, cc)
		}
	}
	for _, p := range pkgs {
		p := p
		out = append(out, cfgCase{Name: "packageName " + p, Engine: "chi", Version: "3.1.0", Feat: map[string]string{"family": "honoured", "packageName": p},
			Mutate: func(c map[string]any) {
				if p == "<none>" {
					scen.Set(c, "routesConfig.packageName", nil)
				} else {
					scen.Set(c, "routesConfig.packageName", p)
				}
			}})
	}
	globSets := map[string][]any{
		"one-file":         {"./api/ctl_realctl.go"},
		"two-files":        {"./api/ctl_realctl.go", "./api/second.go"},
		"dir":              {"./api/*.go"},
		"doublestar":       {"./api/**/*.go"},
		"overlapping":      {"./api/*.go", "./api/ctl_realctl.go"},
		"with-nonmatching": {"./api/*.go", "./nowhere/*.go"},
		// other spellings of the same directory (§ABS§ = the project directory, §BASE§ = its last element)
		"no-dot-slash":    {"api/*.go"},
		"absolute":        {"§ABS§/api/*.go"},
		"via-parent":      {"../§BASE§/api/*.go"},
		"dot-dot-inside":  {"./auth/../api/*.go"},
		"same-dir-twice":  {"./api/*.go", "api/*.go"},
		"one-file-no-dot": {"api/ctl_realctl.go"},
	}
	for name, g := range globSets {
		name, g := name, g
		out = append(out, cfgCase{Name: "globs " + name, Engine: "mux", Version: "3.0.0", Feat: map[string]string{"family": "honoured", "globs": name},
			Mutate: func(c map[string]any) { scen.Set(c, "commonConfig.controllerGlobs", g) }})
	}
	// configured text is copied literally, whatever it looks like to a shell or a template engine
	out = append(out, cfgCase{Name: "text with dollar signs, braces and percent signs", Engine: "gin", Version: "3.1.0", Feat: map[string]string{"family": "honoured", "text": "special-characters"},
		Mutate: func(c map[string]any) {
			scen.Set(c, "openapiGeneratorConfig.info.title", "Billing in $USD and ${currency} - 100% {{literal}}")
			scen.Set(c, "openapiGeneratorConfig.info.description", "costs $5 per call; see $HOME and %s")
			scen.Set(c, "openapiGeneratorConfig.info.contact.name", "Support $TEAM")
		}})
	out = append(out, cfgCase{Name: "text with dollar signs (3.0.0)", Engine: "chi", Version: "3.0.0", Feat: map[string]string{"family": "honoured", "text": "special-characters"},
		Mutate: func(c map[string]any) {
			scen.Set(c, "openapiGeneratorConfig.info.title", "Billing in $USD and ${currency}")
			scen.Set(c, "openapiGeneratorConfig.info.description", "costs $5 per call")
		}})
	for _, paths := range [][2]string{{"./out/deep/er/routes.go", "./out/spec/api.json"}, {"routes_here.go", "spec_here.json"}} {
		paths := paths
		out = append(out, cfgCase{Name: "paths " + paths[0], Engine: "echo", Version: "3.0.0", Feat: map[string]string{"family": "honoured", "paths": paths[0]},
			Mutate: func(c map[string]any) {
				scen.Set(c, "routesConfig.outputPath", paths[0])
				scen.Set(c, "openapiGeneratorConfig.specGeneratorConfig.outputPath", paths[1])
			}})
	}
	return out
}

var engineImport = map[string]string{"gin": "github.com/gin-gonic/gin", "echo": "github.com/labstack/echo/v4", "mux": "github.com/gorilla/mux", "chi": "github.com/go-chi/chi/v5", "fiber": "github.com/gofiber/fiber/v2"}

func Main(tier, replay string) {
	run := core.NewRun("C20", tier)
	syscall.Umask(0o022) // the usual umask: configured permissions must be honoured regardless of it
	scratch := scen.MkScratch("c20")
	defer os.RemoveAll(scratch)
	cases := append(append(violations(), optionals()...), honoured(tier)...)
	for i := range cases {
		cases[i].ID = fmt.Sprintf("c%04d", i)
	}
	if replay != "" {
		_, v := core.LoadReplay(replay)
		name, _ := v.Case.(map[string]any)["name"].(string)
		var sel []cfgCase
		for _, c := range cases {
			if c.Name == name {
				sel = append(sel, c)
			}
		}
		if len(sel) == 0 {
			core.Harness("replay: configuration %q not in the enumeration", name)
		}
		cases = sel
	}
	_ = time.Now
	type outc struct {
		res *scen.CLIResult
		cfg map[string]any
	}
	results := make([]outc, len(cases))
	scen.Pool(0, len(cases), func(i int) {
		c := cases[i]
		p := scen.NewProject()
		scen.Render(p, []scen.Unit{baseUnit()})
		p.Files["auth/auth.go"] = scen.AuthPackage
		cfg := fullConfig(c.Engine, c.Version)
		c.Mutate(cfg)
		if c.Trap {
			p.Files["trap/trap.go"] = "package trap\n\nfunc Broken( {\n"
			if cc, ok := cfg["commonConfig"].(map[string]any); ok {
				if g, ok := cc["controllerGlobs"].([]any); ok {
					cc["controllerGlobs"] = append(g, "./trap/*.go")
				} else if g, ok := cc["controllerGlobs"].([]string); ok {
					cc["controllerGlobs"] = append(g, "./trap/*.go")
				}
			}
		}
		dir := filepath.Join(scratch, c.ID)
		if cc, ok := cfg["commonConfig"].(map[string]any); ok {
			if g, ok := cc["controllerGlobs"].([]any); ok {
				gg := make([]any, len(g))
				for i, x := range g {
					if sx, ok := x.(string); ok {
						x = strings.ReplaceAll(strings.ReplaceAll(sx, "§ABS§", dir), "§BASE§", filepath.Base(dir))
					}
					gg[i] = x
				}
				cc["controllerGlobs"] = gg
			}
		}
		p.Config = cfg
		if err := p.Write(dir); err != nil {
			core.Harness("cannot write project: %v", err)
		}
		for rel, mode := range c.Pre {
			full := filepath.Join(dir, rel)
			os.MkdirAll(filepath.Dir(full), 0o755)
			os.WriteFile(full, []byte("STALE\n"), mode)
			os.Chmod(full, mode)
		}
		results[i] = outc{scen.RunCLI(dir, []string{"generate", "spec-and-routes", "-c", "./gleece.config.json"}, 120), cfg}
		os.RemoveAll(dir)
	})
	for i, c := range cases {
		r, cfg := results[i].res, results[i].cfg
		run.AddStates(1)
		run.AddTransitions(1)
		feat := map[string]string{}
		for k, v := range c.Feat {
			feat[k] = v
		}
		cs := map[string]any{"name": c.Name, "features": c.Feat, "config": cfg}
		rep := func(oracle, what string, extra ...string) {
			f := map[string]string{}
			for k, v := range feat {
				f[k] = v
			}
			for j := 0; j+1 < len(extra); j += 2 {
				f[extra[j]] = extra[j+1]
			}
			run.Report(core.Violation{Oracle: oracle, Features: f, What: c.Name + ": " + what, Case: cs, Observed: tail(r.Output, 6)})
		}
		if strings.Contains(r.Output, "panic:") {
			rep("no-panic", "the command panicked")
			continue
		}
		routesPath, specPath := "dist/routes/gleece.routes.go", "dist/openapi.json"
		if rc, ok := cfg["routesConfig"].(map[string]any); ok {
			if s, ok := rc["outputPath"].(string); ok && s != "" {
				routesPath = strings.TrimPrefix(s, "./")
			}
		}
		if oc, ok := cfg["openapiGeneratorConfig"].(map[string]any); ok {
			if sg, ok := oc["specGeneratorConfig"].(map[string]any); ok {
				if s, ok := sg["outputPath"].(string); ok && s != "" {
					specPath = strings.TrimPrefix(s, "./")
				}
			}
		}
		if c.Reject {
			run.AddValidated(1)
			run.Outcome(fmt.Sprintf("violation: exit0=%v", r.Exit == 0), 1)
			if r.Exit == 0 {
				rep("declared-constraint-violation-is-rejected", "the configuration violates a declared constraint but the command exited 0")
				continue
			}
			named := false
			for _, f := range c.Fields {
				if strings.Contains(r.Output, f) {
					named = true
				}
			}
			if !named && len(c.Fields) > 0 {
				rep("rejection-names-the-field", fmt.Sprintf("the message names none of %v", c.Fields))
			}
			if strings.Contains(r.Output, "trap.go") || strings.Contains(r.Output, "failed to parse file") {
				rep("rejected-before-source-analysis", "the sources were analysed (the trap file's parse error is reported) before the configuration was rejected")
			}
			for rel := range r.Files {
				if strings.HasPrefix(rel, "dist/") || rel == routesPath || rel == specPath {
					rep("rejected-configuration-writes-nothing", "a file was written: "+rel)
				}
			}
			continue
		}
		// accepted configurations are honoured literally
		run.AddValidated(1)
		run.Outcome(fmt.Sprintf("%s: exit0=%v", c.Feat["family"], r.Exit == 0), 1)
		if r.Exit != 0 {
			rep("valid-configuration-is-accepted", fmt.Sprintf("the configuration violates no declared constraint but the command exited %d", r.Exit))
			continue
		}
		routes, okR := r.Files[routesPath]
		specTxt, okS := r.Files[specPath]
		if !okR || !okS || routes == "STALE\n" || specTxt == "STALE\n" {
			rep("artifacts-at-configured-paths", fmt.Sprintf("routes at %s present=%v, spec at %s present=%v", routesPath, okR && routes != "STALE\n", specPath, okS && specTxt != "STALE\n"))
			continue
		}
		// permissions
		wantMode := os.FileMode(0o644)
		if rc, ok := cfg["routesConfig"].(map[string]any); ok {
			if s, ok := rc["outputFilePerms"].(string); ok && s != "" {
				m, _ := strconv.ParseUint(s, 8, 32)
				wantMode = os.FileMode(m)
			}
		}
		permsConfigured := false
		if rc, ok := cfg["routesConfig"].(map[string]any); ok {
			if s, ok := rc["outputFilePerms"].(string); ok && s != "" {
				permsConfigured = true
			}
		}
		// without configured permissions only a newly created file is judged (default 0644)
		if got := r.Modes[routesPath]; got != wantMode && (permsConfigured || c.Pre == nil) {
			rep("routes-file-has-configured-permissions", fmt.Sprintf("the routes file has mode %04o, the configuration asks for %04o", got, wantMode), "pre-existing-file", fmt.Sprint(c.Pre != nil))
		}
		// package name, engine
		wantPkg := "routes"
		if rc, ok := cfg["routesConfig"].(map[string]any); ok {
			if s, ok := rc["packageName"].(string); ok && s != "" {
				wantPkg = s
			}
		}
		if rf, err := rast.Parse(routes); err != nil {
			rep("routes-file-parses", err.Error())
		} else if rf.Package != wantPkg {
			rep("routes-file-in-configured-package", "the routes file is in package "+rf.Package+", the configuration asks for "+wantPkg)
		}
		for e, imp := range engineImport {
			has := strings.Contains(routes, "\""+imp+"\"")
			if e == c.Engine && !has {
				rep("routes-file-for-configured-engine", "the routes file does not import "+imp)
			}
			if e != c.Engine && has {
				rep("routes-file-for-configured-engine", "the routes file imports another engine: "+imp)
			}
		}
		// spec: version string, info/servers/securitySchemes copied
		d, err := spec.Parse(specTxt)
		if err != nil {
			rep("spec-is-json", err.Error())
			continue
		}
		for _, f := range spec.Validate(d, c.Version, cfg) {
			switch f.Rule {
			case "openapi-version", "info-as-configured", "servers-as-configured", "security-schemes-as-configured":
				rep("spec-copies-configuration", f.Where+": "+f.What, "rule", f.Rule)
			}
		}
		// only globbed controllers contribute
		wantSecond := true
		if g, ok := cfg["commonConfig"].(map[string]any)["controllerGlobs"].([]any); ok && len(g) == 1 && (g[0] == "./api/ctl_realctl.go" || g[0] == "api/ctl_realctl.go") {
			wantSecond = false
		}
		paths := spec.M(d["paths"])
		_, hasDecoy := paths["/decoy/op"]
		_, hasReal := paths["/real/op/{id}"]
		_, hasSecond := paths["/second/op"]
		if hasDecoy || strings.Contains(routes, "DecoyCtl") {
			rep("only-globbed-controllers-contribute", "the decoy controller outside controllerGlobs appears in the output")
		}
		if !hasReal || hasSecond != wantSecond || strings.Contains(routes, "SecondCtl") != wantSecond {
			rep("only-globbed-controllers-contribute", fmt.Sprintf("real=%v second=%v (expected second=%v)", hasReal, hasSecond, wantSecond))
		}
	}
	run.Set("configurations", len(cases))
	run.Sample(map[string]any{"name": cases[0].Name, "features": cases[0].Feat})
	run.Sample(map[string]any{"name": cases[len(cases)-1].Name, "features": cases[len(cases)-1].Feat})
	run.Bound = fmt.Sprintf("%d configuration documents: %d violations of declared constraints (missing/null/empty/invalid enum/malformed url, e-mail, permission string, scheme type, location/wrong JSON kind), every single and pair of 12 optional fields removed (%d), 5 engines x 2 versions, 10 permission strings x 4 pre-existing file states, package names, 12 glob sets, 2 output path sets", len(cases), len(violations()), len(optionals()))
	run.Rule = "state = one configuration document over a fixed project with a decoy controller and (for violations) a trap file; transition = one run of the real CLI binary; validated = runs whose exit status, message, written files, modes, package clause, imports and spec sections were compared with the configuration"
	run.Assumptions = []string{"constraints that are not declared in the configuration structs (e.g. contact/license URL syntax) are not judged", "umask 022; without configured permissions a newly created file is expected to be 0644"}
	os.RemoveAll(scratch)
	run.Finish()
}

func tail(s string, n int) string {
	l := strings.Split(strings.TrimSpace(s), "\n")
	if len(l) > n {
		l = l[len(l)-n:]
	}
	o := strings.Join(l, " | ")
	if len(o) > 900 {
		o = o[:900]
	}
	return o
}
