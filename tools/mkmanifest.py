#!/usr/bin/env python3
# Regenerates /verif/MANIFEST.json from the table below (one entry per claimed property).
import json,subprocess
props=[json.loads(l) for l in open('/verif/properties.jsonl')]
NOTE="trusted: Go toolchain, the small reference model under internal/, the enumeration code; bounds/alphabets as stated in the evidence file"
claimed={
"C01":("Full product of one-controller scenarios (prefix x route spellings x 5 verbs x hidden/deprecated x tags, ~1.5k quick / 2.9k thorough) plus every subset of <=2 (thorough 3) of 14 multi-controller/file/package layout deviations; every scenario is run through the real pipeline and both spec generators, packed with others and (quick: covering subset, thorough: all) alone, and its documented operations are compared with a reference route model; packed and single projections must agree.","4.C01","exhaustive enumeration of a bounded scenario space on the real pipeline against a reference route model, with a packed-vs-single differential"),
"C15":("Every ordered route list up to length 3 over a 170-entry template alphabet plus all raw-spelling pairs (quick) / plus length 4-6 over smaller alphabets (thorough) is run through the real paths.FindConflicts and compared with the statement's overlap relation: soundness, completeness and therefore order-independence of the flagged set hold for every list in the bound.","4.C15","exhaustive enumeration of bounded route lists on the real function against a reference overlap model"),
"C16":("Every line of a bounded annotation grammar (names x values x 19 JSON5 literals x separators x descriptions, ~12.6k lines) and every comment block up to 4 (thorough 6) lines over 7 line kinds goes through go/parser and the real annotations.NewAnnotationHolder and is compared with a left-to-right string-aware reference parser.","4.C16","exhaustive enumeration of a bounded comment grammar on the real parser against a reference parser"),
"C17":("Explicit-state breadth-first search over all operation histories of the real SymbolGraph (143 ops over 2 keys x 2 versions to depth 3 quick; 3 keys and depth 4/5 thorough), de-duplicated on a canonical dump of the whole private state, all dependents orders of every RemoveNode; after every transition all public views are compared with a set-of-nodes/set-of-edges model.","4.C17","explicit-state BFS over the real object with canonical state hashing and a reference set model; order choices explored through a build-tag hook"),
}
src=subprocess.run(['git','-C','/repo','log','--format=%h %s'],capture_output=True,text=True).stdout.splitlines()
hook_commits=[l.split()[0] for l in src if l.split(' ',1)[1].startswith('verif hooks')]
m={"version":1,"setup_cmd":"cd /verif && ./setup.sh",
"hooks":{"guard":"verif","enable":"go build -tags verif (done by ./vc on every invocation)","baseline_off_cmd":"cd /repo && go test -mod=mod -json -vet=off -count=1 -timeout 25m ./...","source_commits":hook_commits,"add_only":True},
"engines":[{"name":"vcheck","path":"/verif/cmd/vcheck","serves_properties":sorted(claimed),"kind_free_text":"hand-written bounded exhaustive explorers (product/deviation enumeration, stateless choice DFS, explicit-state BFS) driving the real gleece code"}],
"checks":[],"not_applicable":[],"notes":"Every check is ./vc <id> <tier>: it rebuilds bin/vcheck with -tags verif against /repo's working tree, explores a bounded space exhaustively on the real code and writes evidence/<id>.json. Exit 0 held, 1 violation, 2 harness error. Known findings: /verif/known_findings.json."}
for p in props:
    i=p['id']
    if i in claimed:
        t,ref,tech=claimed[i]
        m["checks"].append({"property_id":i,"quick_cmd":f"./vc {i} quick","thorough_cmd":f"./vc {i} thorough","evidence_file":f"/verif/evidence/{i}.json","replay_cmd_template":f"./vc {i} replay {{path}}","engine":"vcheck","level_claimed":{"category":"model_checking","text":t,"design_ref":ref},"level_note":NOTE,"technique":tech})
    else:
        m["not_applicable"].append({"property_id":i,"reason":"check not built yet (work in progress; DESIGN.md section 4 describes how the technique applies to it)"})
json.dump(m,open('/verif/MANIFEST.json','w'),indent=1)
print('claimed',len(m['checks']),'not_applicable',len(m['not_applicable']))
