package fam

import (
	"fmt"
	"strings"

	"verif/internal/scen"
)

// Kind is one parameter/return type kind of the signature alphabet.
type Kind struct {
	Name  string   // feature name
	Go    string   // Go type with § standing for the scenario id
	Kinds []string // acceptable dialect-neutral schema kinds (§ = id), first = canonical
	Decl  string   // declaration needed (with §)
	Locs  []string // locations it may be bound from
}

const declBody = "type Body§ struct {\n\tA string `json:\"a\"`\n\tN int    `json:\"n\" validate:\"gte=0\"`\n}\n"
const declEnumS = "type E§ string\n\nconst (\n\tE§A E§ = \"a\"\n\tE§B E§ = \"b\"\n)\n"
const declEnumI = "type I§ int\n\nconst (\n\tI§One I§ = 1\n\tI§Two I§ = 2\n)\n"
const declTS = "type TS§ string\n"
const declAS = "type AS§ = string\n"
const declCErr = "type CErr§ struct {\n\terror\n\tCode int `json:\"code\"`\n}\n"

var nonBody = []string{"Path", "Query", "Header", "FormField"}

func ParamKinds() []Kind {
	return []Kind{
		{"string", "string", []string{"string"}, "", nonBody},
		{"int", "int", []string{"integer"}, "", nonBody},
		{"int64", "int64", []string{"integer"}, "", nonBody},
		{"uint8", "uint8", []string{"integer"}, "", nonBody},
		{"bool", "bool", []string{"boolean"}, "", nonBody},
		{"float64", "float64", []string{"number"}, "", nonBody},
		{"enum-string", "E§", []string{"$ref:E§", "string"}, declEnumS, nonBody},
		{"enum-int", "I§", []string{"$ref:I§", "integer"}, declEnumI, nonBody},
		{"alias-typedef", "TS§", []string{"$ref:TS§", "string"}, declTS, nonBody},
		{"alias-assigned", "AS§", []string{"$ref:AS§", "string"}, declAS, nonBody},
		{"[]string", "[]string", []string{"array<string>"}, "", []string{"Query"}},
		{"[]int", "[]int", []string{"array<integer>"}, "", []string{"Query"}},
		{"struct", "Body§", []string{"$ref:Body§"}, declBody, []string{"Body"}},
		{"[]struct", "[]Body§", []string{"array<$ref:Body§>"}, declBody, []string{"Body"}},
		{"map", "map[string]int", []string{"map<integer>"}, "", []string{"Body"}},
		{"body-string", "string", []string{"string"}, "", []string{"Body"}},
	}
}

// SigParam is the expectation for one documented parameter.
type SigParam struct {
	Name     string
	In       string // path | query | header | form | body
	Required bool
	Kinds    []string
	Validate string // the validator text written for it ("" = none)
}

// SigExpect is the reference signature model of one scenario's operation.
type SigExpect struct {
	OpID        string
	Params      []SigParam // signature order, context excluded
	SuccessCode string
	SuccessKind []string // nil = no content
	ErrCodes    []string
	ErrKinds    []string // schema kinds acceptable for error responses
}

func stripPtr(t string) (string, bool) {
	if strings.HasPrefix(t, "*") {
		return t[1:], true
	}
	return t, false
}

func hasRequired(v string) bool {
	for _, r := range strings.Split(v, ",") {
		if r == "required" {
			return true
		}
	}
	return false
}

type sigBuilder struct {
	group bool // next scenario writes same-typed neighbours as one declaration
	n     int
	cases []scen.Case
	exp   map[string]SigExpect
}

type pSpec struct {
	newDecl  bool
	kind     Kind
	loc      string
	ptr      bool
	alias    string
	validate string
	name     string
	ctx      bool
}

type retSpec struct {
	valKind  *Kind
	valPtr   bool
	errKind  string // "error" | "cerr"
	response string
	errResps []string
	name     string
}

func (b *sigBuilder) add(family string, ps []pSpec, r retSpec, feat map[string]string) {
	id := fmt.Sprintf("g%04d", b.n)
	b.n++
	sub := func(s string) string { return strings.ReplaceAll(s, "§", id) }
	decls := map[string]bool{}
	var declText strings.Builder
	need := func(d string) {
		if d != "" && !decls[d] {
			decls[d] = true
			declText.WriteString(sub(d) + "\n")
		}
	}
	route := "/op"
	var params []scen.Param
	exp := SigExpect{OpID: "Op" + id}
	for _, p := range ps {
		if p.ctx {
			params = append(params, scen.Param{Name: p.name, Type: "context.Context"})
			continue
		}
		need(p.kind.Decl)
		t := sub(p.kind.Go)
		if p.ptr {
			t = "*" + t
		}
		params = append(params, scen.Param{Name: p.name, Type: t, In: p.loc, Alias: p.alias, Validate: p.validate, NewDecl: p.newDecl})
		wire := p.name
		if p.alias != "" {
			wire = p.alias
		}
		if p.loc == "Path" {
			route += "/{" + wire + "}"
		}
		var kinds []string
		for _, k := range p.kind.Kinds {
			kinds = append(kinds, sub(k))
		}
		in := map[string]string{"Path": "path", "Query": "query", "Header": "header", "FormField": "form", "Body": "body"}[p.loc]
		exp.Params = append(exp.Params, SigParam{Name: wire, In: in, Required: !p.ptr || p.loc == "Path" || hasRequired(p.validate), Kinds: kinds, Validate: p.validate})
	}
	m := scen.Method{Name: "Op" + id, Verb: "POST", Route: scen.S(route), Params: params, Response: r.response, ErrResps: r.errResps, Style: b.n % 2, GroupParams: b.group}
	if r.valKind != nil {
		need(r.valKind.Decl)
		m.Ret = sub(r.valKind.Go)
		if r.valPtr {
			m.Ret = "*" + m.Ret
		}
		for _, k := range r.valKind.Kinds {
			exp.SuccessKind = append(exp.SuccessKind, sub(k))
		}
		exp.SuccessCode = "200"
	} else {
		exp.SuccessCode = "204"
	}
	if r.response != "" {
		exp.SuccessCode = strings.SplitN(r.response, " ", 2)[0]
	}
	exp.ErrKinds = []string{"$ref:Rfc7807Error"}
	if r.errKind == "cerr" {
		need(declCErr)
		m.Err = sub("CErr§")
		exp.ErrKinds = []string{sub("$ref:CErr§")}
	}
	seen := map[string]bool{}
	for _, e := range r.errResps {
		code := strings.SplitN(e, " ", 2)[0]
		if !seen[code] {
			seen[code] = true
			exp.ErrCodes = append(exp.ErrCodes, code)
		}
	}
	ctl := scen.Controller{Name: "C" + id, Pkg: id, Prefix: scen.S("/" + id), Tag: scen.S("T" + id), Methods: []scen.Method{m}}
	u := scen.Unit{Controllers: []scen.Controller{ctl}, Decls: map[string]string{}, Imports: map[string][]string{id: {"context"}}}
	if declText.Len() > 0 {
		u.Decls[id] = declText.String()
	}
	f := map[string]string{"family": family}
	for k, v := range feat {
		f[k] = v
	}
	b.cases = append(b.cases, scen.Case{ID: id, Unit: u, Features: f, Desc: map[string]any{"controller": ctl, "decls": declText.String()}})
	b.exp[id] = exp
}

// Signature builds the C06 family: parameter lists, pointer-ness, validators, return shapes.
func Signature(tier string) (Family, map[string]SigExpect) {
	b := &sigBuilder{exp: map[string]SigExpect{}}
	kinds := ParamKinds()
	// besides the plain tags: tags that merely contain the text "required" (required_with=..., required_if=...) are
	// not the `required` tag, and the order of tags must not matter
	validators := []string{"", "required", "min=1", "min=1,required", "omitempty", "required_with=Other", "omitempty,required_if=Other 1", "required,min=1"}
	aliases := []string{"", "x-n"}
	plainRet := retSpec{errKind: "error"}
	// (1) one parameter: full product
	for _, k := range kinds {
		for _, loc := range k.Locs {
			for _, ptr := range []bool{false, true} {
				for _, al := range append(append([]string{}, aliases...), "wn") {
					if loc == "Body" && al != "" {
						continue
					}
					// a wire name that is also a Go identifier: for the package-typed kinds (and string as the control)
					if al == "wn" && k.Decl == "" && k.Name != "string" {
						continue
					}
					vs := validators
					if strings.HasPrefix(k.Name, "[]") {
						// element rules: everything after `dive` concerns the elements, not the slice
						vs = append(append([]string{}, validators...), "dive", "dive,min=2", "minItems=2,maxItems=5")
					}
					for _, v := range vs {
						if al == "wn" && v != "" && v != "required" && tier != "thorough" {
							continue
						}
						if strings.Contains(v, "min") && !strings.HasPrefix(v, "dive") && !strings.HasPrefix(v, "minItems") && (k.Name == "bool" || strings.HasPrefix(k.Name, "[]") || k.Name == "struct" || k.Name == "map") && tier != "thorough" {
							continue
						}
						b.add("sig-1param", []pSpec{{kind: k, loc: loc, ptr: ptr, alias: al, validate: v, name: "p"}}, plainRet,
							map[string]string{"kind": k.Name, "in": loc, "ptr": fmt.Sprint(ptr), "alias": al, "validate": v})
					}
				}
			}
		}
	}
	// (2) two parameters: (location x pointer x validator)^2 over string and int
	kStr, kInt, kStruct := kinds[0], kinds[1], kinds[12]
	v2 := []string{"", "required"}
	locs2 := []string{"Path", "Query", "Header", "FormField", "Body"}
	for _, l1 := range locs2 {
		for _, l2 := range locs2 {
			if l1 == "Body" && l2 == "Body" {
				continue
			}
			for _, p1 := range []bool{false, true} {
				for _, p2 := range []bool{false, true} {
					for _, va := range v2 {
						for _, vb := range v2 {
							if tier != "thorough" && va != vb {
								continue
							}
							k1, k2 := kStr, kInt
							if l1 == "Body" {
								k1 = kStruct
							}
							if l2 == "Body" {
								k2 = kStruct
							}
							b.add("sig-2param", []pSpec{{kind: k1, loc: l1, ptr: p1, validate: va, name: "a"}, {kind: k2, loc: l2, ptr: p2, validate: vb, name: "b"}}, plainRet,
								map[string]string{"in": l1 + "+" + l2, "ptr": fmt.Sprint(p1, p2), "validate": va + "+" + vb})
						}
					}
				}
			}
		}
	}
	// (3) three parameters: every order of (path, query, header), context at every position
	perm := [][]int{{0, 1, 2}, {0, 2, 1}, {1, 0, 2}, {1, 2, 0}, {2, 0, 1}, {2, 1, 0}}
	l3 := []string{"Path", "Query", "Header"}
	for _, pm := range perm {
		for ctxPos := -1; ctxPos <= 3; ctxPos++ {
			var ps []pSpec
			for i, idx := range pm {
				if ctxPos == i {
					ps = append(ps, pSpec{ctx: true, name: "ctx"})
				}
				ps = append(ps, pSpec{kind: kStr, loc: l3[idx], name: fmt.Sprintf("p%d", idx)})
			}
			if ctxPos == 3 {
				ps = append(ps, pSpec{ctx: true, name: "ctx"})
			}
			b.add("sig-3param", ps, plainRet, map[string]string{"order": fmt.Sprint(pm), "ctx": fmt.Sprint(ctxPos)})
		}
	}
	// (3b) grouped declarations ("a, b, c string, n int"): documented order is signature order whatever the grouping
	groupings := [][]int{{3, 1}, {1, 3}, {2, 2}, {4}, {3, 2, 1}, {2, 1, 2}, {1, 1, 3}, {5, 1}}
	gk := []Kind{kStr, kInt, kinds[4]}
	for gi, g := range groupings {
		for _, locMode := range []string{"all-query", "query/header", "header/query/path-first"} {
			var ps []pSpec
			idx := 0
			for k, size := range g {
				for j := 0; j < size; j++ {
					loc := "Query"
					switch {
					case locMode == "query/header" && idx%2 == 1:
						loc = "Header"
					case locMode == "header/query/path-first" && idx == 0:
						loc = "Path"
					case locMode == "header/query/path-first" && idx%2 == 0:
						loc = "Header"
					}
					ps = append(ps, pSpec{kind: gk[k%len(gk)], loc: loc, name: fmt.Sprintf("p%d", idx)})
					idx++
				}
			}
			b.group = true
			b.add("sig-grouped", ps, plainRet, map[string]string{"grouping": fmt.Sprint(g), "locations": locMode, "gi": fmt.Sprint(gi)})
			b.group = false
		}
	}
	// ... and groups followed by a separate declaration of the same type ("a, b, c string, d string")
	for gi, split := range [][]int{{3, 1}, {1, 3}, {2, 2}, {3, 2}, {2, 1, 2}} {
		var ps []pSpec
		idx := 0
		for _, size := range split {
			for j := 0; j < size; j++ {
				loc := "Query"
				if idx%2 == 1 {
					loc = "Header"
				}
				ps = append(ps, pSpec{kind: kStr, loc: loc, name: fmt.Sprintf("p%d", idx), newDecl: j == 0})
				idx++
			}
		}
		b.group = true
		b.add("sig-grouped", ps, plainRet, map[string]string{"grouping": fmt.Sprint(split), "locations": "same-type-declarations", "gi": fmt.Sprint(gi)})
		b.group = false
	}
	// (3c) a user type that merely looks like context.Context: named Context, in a package whose path ends in /context
	{
		id := fmt.Sprintf("g%04d", b.n)
		b.n++
		m := scen.Method{Name: "Op" + id, Verb: "POST", Route: scen.S("/op"), Params: []scen.Param{{Name: "ctx", Type: "context.Context"}, {Name: "target", Type: "tctx.Context", In: "Body"}}}
		ctl := scen.Controller{Name: "C" + id, Pkg: id, Prefix: scen.S("/" + id), Tag: scen.S("T" + id), Methods: []scen.Method{m}}
		u := scen.Unit{Controllers: []scen.Controller{ctl}, Decls: map[string]string{id + "/tenancy/context": "type Context struct {\n\tTenant string `json:\"tenant\"`\n}\n"},
			Imports: map[string][]string{id: {"context", "tctx " + scen.ModulePath + "/" + id + "/tenancy/context"}}}
		b.cases = append(b.cases, scen.Case{ID: id, Unit: u, Features: map[string]string{"family": "sig-lookalike-context", "in": "Body"}, Desc: map[string]any{"controller": ctl}})
		b.exp[id] = SigExpect{OpID: "Op" + id, Params: []SigParam{{Name: "target", In: "body", Required: true, Kinds: []string{"$ref:Context"}}}, SuccessCode: "204", ErrKinds: []string{"$ref:Rfc7807Error"}}
	}
	// (4) return shapes x @Response x @ErrorResponse
	rets := []struct {
		name string
		k    *Kind
		ptr  bool
	}{{"none", nil, false}, {"string", &kinds[0], false}, {"int", &kinds[1], false}, {"struct", &kinds[12], false}, {"[]struct", &kinds[13], false},
		{"*struct", &kinds[12], true}, {"enum", &kinds[6], false}, {"map", &kinds[14], false}, {"alias", &kinds[8], false}}
	for _, r := range rets {
		for _, ek := range []string{"error", "cerr"} {
			for _, resp := range []string{"", "201 Created"} {
				for _, er := range [][]string{nil, {"400 bad"}, {"400 bad", "500 boom"}, {"400 bad", "400 again"}} {
					b.add("sig-return", nil, retSpec{valKind: r.k, valPtr: r.ptr, errKind: ek, response: resp, errResps: er},
						map[string]string{"ret": r.name, "err": ek, "response": resp, "errresps": strings.Join(er, "|")})
				}
			}
		}
	}
	return Family{Name: "signature", Cases: b.cases, BaseCfg: DefaultCfg, PackSize: 80}, b.exp
}
