// Package c12 decides C12 (the five generated routers are behaviourally interchangeable) by replaying the request
// spaces of C03 (all authorization verdict vectors), C05 (parameter value alphabets) and an operation-outcome
// family (success shapes, plain / custom errors, custom status and headers) against all five compiled routers and
// comparing, for every request, the invoked method and arguments, the authorization sequence, the status and the
// JSON-equivalent body across all ten engine pairs.
package c12

import (
	"encoding/json"
	"fmt"
	"os"
	"strings"
	"time"

	"verif/internal/c03"
	"verif/internal/c05"
	"verif/internal/core"
	"verif/internal/rt"
	"verif/internal/scen"
)

type outcome struct {
	Name, Ret, Err, Body string
	Decl                 string
}

func outcomeCases() ([]scen.Case, func(scen.Case) scen.Unit, func(scen.Case) []rt.Request) {
	outs := []outcome{
		{Name: "value-string", Ret: "string", Body: "\trec.Call(\"§\", \"none\")\n\treturn \"ok ü✓\", nil\n"},
		{Name: "value-struct", Ret: "Res§", Body: "\trec.Call(\"§\", \"none\")\n\treturn Res§{A: \"x\", N: 3, L: []string{\"p\", \"q\"}}, nil\n"},
		{Name: "value-nil-pointer", Ret: "*Res§", Body: "\trec.Call(\"§\", \"none\")\n\treturn nil, nil\n"},
		{Name: "value-empty-slice", Ret: "[]Res§", Body: "\trec.Call(\"§\", \"none\")\n\treturn []Res§{}, nil\n"},
		{Name: "value-nil-slice", Ret: "[]Res§", Body: "\trec.Call(\"§\", \"none\")\n\treturn nil, nil\n"},
		{Name: "value-map", Ret: "map[string]int", Body: "\trec.Call(\"§\", \"none\")\n\treturn map[string]int{\"a\": 1, \"b\": 2}, nil\n"},
		{Name: "no-content", Body: "\trec.Call(\"§\", \"none\")\n\treturn nil\n"},
		{Name: "plain-error", Ret: "string", Body: "\trec.Call(\"§\", \"none\")\n\treturn \"\", fmt.Errorf(\"boom\")\n"},
		{Name: "plain-error-no-value", Body: "\trec.Call(\"§\", \"none\")\n\treturn fmt.Errorf(\"boom\")\n"},
		{Name: "rfc7807-error", Ret: "string", Body: "\trec.Call(\"§\", \"none\")\n\treturn \"\", &runtime.Rfc7807Error{Type: \"t\", Title: \"ti\", Detail: \"d\", Status: 409, Instance: \"/i\"}\n"},
		{Name: "custom-error-value", Ret: "string", Err: "CErr§", Body: "\trec.Call(\"§\", \"none\")\n\treturn \"\", CErr§{error: fmt.Errorf(\"custom\"), Code: 7}\n"},
		{Name: "custom-error-value-empty", Ret: "string", Err: "CErr§", Body: "\trec.Call(\"§\", \"none\")\n\treturn \"fine\", CErr§{}\n"},
		{Name: "custom-error-pointer", Ret: "string", Err: "*CErr§", Body: "\trec.Call(\"§\", \"none\")\n\treturn \"\", &CErr§{error: fmt.Errorf(\"custom\"), Code: 8}\n"},
		{Name: "custom-error-pointer-nil", Ret: "string", Err: "*CErr§", Body: "\trec.Call(\"§\", \"none\")\n\treturn \"fine\", nil\n"},
		{Name: "set-status-success", Ret: "string", Body: "\trec.Call(\"§\", \"none\")\n\tc.SetStatus(runtime.StatusAccepted)\n\treturn \"ok\", nil\n"},
		{Name: "set-status-error", Ret: "string", Body: "\trec.Call(\"§\", \"none\")\n\tc.SetStatus(runtime.StatusTeapot)\n\treturn \"\", fmt.Errorf(\"teapot\")\n"},
		{Name: "set-header", Ret: "string", Body: "\trec.Call(\"§\", \"none\")\n\tc.SetHeader(\"X-Custom\", \"v\")\n\treturn \"ok\", nil\n"},
	}
	var cases []scen.Case
	for i, o := range outs {
		for _, resp := range []string{"", "201 Created"} {
			id := fmt.Sprintf("o%04d", len(cases))
			sub := func(s string) string { return strings.ReplaceAll(s, "§", id) }
			m := scen.Method{Name: "Op" + id, Verb: "GET", Route: scen.S("/op"), Ret: sub(o.Ret), Err: sub(o.Err), Response: resp, ErrResps: []string{"409 conflict", "500 boom"},
				Body: strings.ReplaceAll(o.Body, "\"§\"", "\"C"+id+".Op"+id+"\"")}
			m.Body = sub(m.Body)
			ctl := scen.Controller{Name: "C" + id, Pkg: id, Prefix: scen.S("/" + id), Tag: scen.S("T" + id), Methods: []scen.Method{m}}
			decl := sub("type Res§ struct {\n\tA string `json:\"a\"`\n\tN int `json:\"n\"`\n\tL []string `json:\"l\"`\n}\n\ntype CErr§ struct {\n\terror\n\tCode int `json:\"code\"`\n}\n")
			cases = append(cases, scen.Case{ID: id, Unit: scen.Unit{Controllers: []scen.Controller{ctl}, Decls: map[string]string{id: decl},
				Imports: map[string][]string{id: append([]string{"github.com/gopher-fleece/runtime"}, rt.RtImports...)}},
				Features: map[string]string{"family": "outcome", "outcome": o.Name, "response": resp}, Desc: map[string]any{"outcome": outs[i].Name, "controller": ctl}})
		}
	}
	instrument := func(c scen.Case) scen.Unit { return c.Unit }
	reqsFor := func(c scen.Case) []rt.Request {
		return []rt.Request{{ID: c.ID + "#0", Verb: "GET", URL: "/" + c.ID + "/op"}}
	}
	return cases, instrument, reqsFor
}

func normBody(b string) string {
	t := strings.TrimSpace(b)
	var v any
	if json.Unmarshal([]byte(t), &v) == nil {
		out, _ := json.Marshal(v)
		return string(out)
	}
	return t
}

func Main(tier, replay string) {
	run := core.NewRun("C12", tier)
	scratch := scen.MkScratch("c12")
	defer os.RemoveAll(scratch)
	deadline := core.Deadline(tier, 12*time.Minute, 50*time.Minute)
	type space struct {
		name       string
		cases      []scen.Case
		instrument func(scen.Case) scen.Unit
		reqsFor    func(scen.Case) []rt.Request
		pack       int
	}
	oc, oi, or := outcomeCases()
	sc, si, sr := c03.Space()
	bc, bi, br := c05.Space(tier)
	spaces := []space{{"outcomes", oc, oi, or, 20}, {"security", sc, si, sr, 8}, {"binding", bc, bi, br, 40}}
	var replayID string
	if replay != "" {
		_, v := core.LoadReplay(replay)
		replayID, _ = v.Case.(map[string]any)["id"].(string)
	}
	compared, agree := 0, 0
	for _, sp := range spaces {
		cases := sp.cases
		if replayID != "" {
			cases = nil
			for _, c := range sp.cases {
				if c.ID == replayID {
					cases = append(cases, c)
				}
			}
			if len(cases) == 0 {
				continue
			}
		}
		crs := rt.RunCases(scratch, cases, sp.pack, 6, sp.instrument, sp.reqsFor, nil, rt.Flags{}, deadline)
		for _, cr := range crs {
			c := cr.Case
			if cr.Run == nil {
				run.Cap("deadline reached: scenario " + c.ID + " not run")
				continue
			}
			if cr.Run.Failed() {
				if cr.Run.Worker.Accepted() {
					run.Report(core.Violation{Oracle: "accepted-scenario-builds-and-registers-on-every-engine", Features: c.Features, What: "build/registration failed: " + firstLines(cr.Run.BuildErr, 3) + fmt.Sprint(cr.Run.RegErr), Case: c})
				} else {
					run.Outcome(sp.name+": scenario not accepted", 1)
				}
				continue
			}
			run.AddStates(1)
			for _, rq := range cr.Reqs {
				ref := cr.Run.Results["gin"][rq.ID]
				refNames, refArgs, refAuth := ref.Calls()
				same := true
				for _, e := range rt.Engines[1:] {
					resp := cr.Run.Results[e][rq.ID]
					run.AddTransitions(1)
					compared++
					names, args, auths := resp.Calls()
					var diffs []string
					if strings.Join(names, ",") != strings.Join(refNames, ",") {
						diffs = append(diffs, fmt.Sprintf("invoked %v vs %v", refNames, names))
					} else if strings.Join(args, ";") != strings.Join(refArgs, ";") {
						diffs = append(diffs, fmt.Sprintf("arguments %v vs %v", refArgs, args))
					}
					if strings.Join(auths, ";") != strings.Join(refAuth, ";") {
						diffs = append(diffs, fmt.Sprintf("authorization checks %v vs %v", refAuth, auths))
					}
					if resp.Status != ref.Status {
						diffs = append(diffs, fmt.Sprintf("status %d vs %d", ref.Status, resp.Status))
					} else if normBody(resp.Body) != normBody(ref.Body) {
						diffs = append(diffs, fmt.Sprintf("body %.100q vs %.100q", ref.Body, resp.Body))
					}
					if resp.Panic != "" || ref.Panic != "" {
						diffs = append(diffs, "panic "+ref.Panic+" / "+resp.Panic)
					}
					if len(diffs) > 0 {
						same = false
						aspect := strings.Fields(diffs[0])[0]
						feat := map[string]string{"space": sp.name, "pair": "gin/" + e, "aspect": aspect}
						for k, v := range c.Features {
							feat[k] = v
						}
						if ref.Status == 404 || resp.Status == 404 {
							feat["one-side-404"] = "true"
						}
						switch {
						case strings.Contains(strings.ToUpper(rq.URL), "%2F"):
							feat["request-shape"] = "encoded-slash-in-path-parameter"
						case c.Features["in"] == "Path" && c.Features["alias"] == "x-alias":
							feat["request-shape"] = "hyphenated-path-parameter-name"
						}
						run.Report(core.Violation{Oracle: "engines-agree", Features: feat, What: fmt.Sprintf("%s %s (verdicts %v): gin and %s differ — %s", rq.Verb, rq.URL, rq.Verdicts, e, strings.Join(diffs, "; ")),
							Case: map[string]any{"id": c.ID, "scenario": c.Desc, "request": rq}})
					}
				}
				run.AddValidated(1)
				if same {
					agree++
				}
				run.Outcome(fmt.Sprintf("%s: status %d", sp.name, ref.Status), 1)
			}
		}
	}
	run.Set("engine_pair_comparisons", compared)
	run.Set("requests_on_which_all_five_agree", agree)
	run.Sample(map[string]any{"space": "outcomes", "scenario": oc[0].Desc})
	run.Sample(map[string]any{"space": "security", "request": "GET /<id>/q?n=abc", "verdicts": []int{2, 1}})
	run.Bound = fmt.Sprintf("operation-outcome family (%d scenarios: success shapes, plain/RFC-7807/custom errors by value and pointer, SetStatus, SetHeader, with and without @Response), the C03 security space (all verdict vectors) and the C05 binding space (value alphabets); every request against all five engines, compared pairwise through gin (equality is transitive)", len(oc))
	run.Rule = "state = (scenario, request); transition = one HTTP request served in-process by one compiled generated router; validated = requests whose five responses (invoked method, arguments, authorization sequence, status, JSON-equivalent body) were compared"
	run.Assumptions = []string{"header casing/order, Content-Type parameters and body whitespace are not compared", "engines run in strict configuration; requests are delivered in-process"}
	os.RemoveAll(scratch)
	run.Finish()
}

func firstLines(s string, n int) string {
	l := strings.Split(strings.TrimSpace(s), "\n")
	if len(l) > n {
		l = l[:n]
	}
	return strings.Join(l, " | ")
}
