module verif

go 1.24.7

require (
	github.com/gin-gonic/gin v1.11.0
	github.com/gofiber/fiber/v2 v2.52.10
	github.com/gopher-fleece/gleece/v2 v2.0.0
	github.com/gopher-fleece/runtime v1.2.1
	github.com/labstack/echo/v4 v4.13.4
)

require (
	github.com/andybalholm/brotli v1.2.0 // indirect
	github.com/aymerick/raymond v2.0.3-0.20180322193309-b565731e1464+incompatible // indirect
	github.com/bahlo/generic-list-go v0.2.0 // indirect
	github.com/basgys/goxml2json v1.1.1-0.20231018121955-e66ee54ceaad // indirect
	github.com/bmatcuk/doublestar/v4 v4.9.1 // indirect
	github.com/buger/jsonparser v1.1.1 // indirect
	github.com/clipperhouse/stringish v0.1.1 // indirect
	github.com/clipperhouse/uax29/v2 v2.3.0 // indirect
	github.com/deckarep/golang-set/v2 v2.8.0 // indirect
	github.com/gabriel-vasile/mimetype v1.4.11 // indirect
	github.com/getkin/kin-openapi v0.133.0 // indirect
	github.com/gin-contrib/sse v1.1.0 // indirect
	github.com/go-openapi/jsonpointer v0.22.3 // indirect
	github.com/go-openapi/swag/jsonname v0.25.4 // indirect
	github.com/go-playground/locales v0.14.1 // indirect
	github.com/go-playground/universal-translator v0.18.1 // indirect
	github.com/go-playground/validator/v10 v10.28.0 // indirect
	github.com/goccy/go-yaml v1.19.0 // indirect
	github.com/google/uuid v1.6.0 // indirect
	github.com/iancoleman/strcase v0.3.0 // indirect
	github.com/josharian/intern v1.0.0 // indirect
	github.com/klauspost/compress v1.18.2 // indirect
	github.com/labstack/gommon v0.4.2 // indirect
	github.com/leodido/go-urn v1.4.0 // indirect
	github.com/mailru/easyjson v0.9.1 // indirect
	github.com/mattn/go-colorable v0.1.14 // indirect
	github.com/mattn/go-isatty v0.0.20 // indirect
	github.com/mattn/go-runewidth v0.0.19 // indirect
	github.com/mohae/deepcopy v0.0.0-20170929034955-c48cc78d4826 // indirect
	github.com/oasdiff/yaml v0.0.0-20250309154309-f31be36b4037 // indirect
	github.com/oasdiff/yaml3 v0.0.0-20250309153720-d2182401db90 // indirect
	github.com/pb33f/jsonpath v0.1.2 // indirect
	github.com/pb33f/libopenapi v0.28.2 // indirect
	github.com/pb33f/libopenapi-validator v0.9.3 // indirect
	github.com/pb33f/ordered-map/v2 v2.3.0 // indirect
	github.com/pelletier/go-toml/v2 v2.2.4 // indirect
	github.com/perimeterx/marshmallow v1.1.5 // indirect
	github.com/quic-go/qpack v0.6.0 // indirect
	github.com/quic-go/quic-go v0.57.1 // indirect
	github.com/santhosh-tekuri/jsonschema/v6 v6.0.2 // indirect
	github.com/spf13/cobra v1.10.2 // indirect
	github.com/spf13/pflag v1.0.10 // indirect
	github.com/titanous/json5 v1.0.0 // indirect
	github.com/ugorji/go/codec v1.3.1 // indirect
	github.com/valyala/bytebufferpool v1.0.0 // indirect
	github.com/valyala/fasthttp v1.68.0 // indirect
	github.com/valyala/fasttemplate v1.2.2 // indirect
	github.com/woodsbury/decimal128 v1.4.0 // indirect
	go.yaml.in/yaml/v4 v4.0.0-rc.3 // indirect
	golang.org/x/crypto v0.45.0 // indirect
	golang.org/x/mod v0.30.0 // indirect
	golang.org/x/net v0.47.0 // indirect
	golang.org/x/sync v0.18.0 // indirect
	golang.org/x/sys v0.38.0 // indirect
	golang.org/x/text v0.31.0 // indirect
	golang.org/x/tools v0.39.0 // indirect
	google.golang.org/protobuf v1.36.10 // indirect
)

replace github.com/gopher-fleece/gleece/v2 => /repo
