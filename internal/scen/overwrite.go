package scen

import (
	"encoding/json"
	"fmt"
	"os"
	"path/filepath"
	"strings"

	"verif/internal/core"
)

// OWStep is one letter of an overwrite history: one CLI command run against one configuration of the project.
type OWStep struct {
	Name   string         // e.g. "small/3.1.0"
	Config map[string]any // written as cfg_<index>.json
	Args   []string       // CLI arguments before "-c <config>"
}

// OWInitial is what lies at the watched paths before the first step.
type OWInitial struct {
	Name  string
	Files map[string]string // relative path -> content ("" = absent)
}

// OWObservation is the state of the watched files after the last step of one history.
type OWObservation struct {
	Initial string
	Steps   []string // step names
	Exit    []int
	Files   map[string]string // watched path -> content after the last step
	Fresh   map[string]string // watched path -> content after running the last step alone in an empty tree
	Output  string            // CLI output of the last step
}

// RunOverwriteHistories runs every sequence of 1..depth steps over the alphabet, from every initial state, each
// in its own copy of the project, and returns for each history the watched files next to what the last step
// writes into an empty tree (the differential reference: a generator's output must not depend on what was
// there before).
func RunOverwriteHistories(scratch string, p *Project, alphabet []OWStep, initials []OWInitial, depth int, watched []string) []OWObservation {
	writeTree := func(dir string, init OWInitial) {
		if err := p.Write(dir); err != nil {
			core.Harness("cannot write project: %v", err)
		}
		for i, st := range alphabet {
			b, _ := json.MarshalIndent(st.Config, "", "  ")
			os.WriteFile(filepath.Join(dir, fmt.Sprintf("cfg_%d.json", i)), b, 0o644)
		}
		for rel, content := range init.Files {
			full := filepath.Join(dir, rel)
			os.MkdirAll(filepath.Dir(full), 0o755)
			os.WriteFile(full, []byte(content), 0o644)
		}
	}
	runStep := func(dir string, i int) *CLIResult {
		return RunCLI(dir, append(append([]string{}, alphabet[i].Args...), "-c", fmt.Sprintf("./cfg_%d.json", i)), 180)
	}
	// references
	fresh := make([]map[string]string, len(alphabet))
	freshExit := make([]int, len(alphabet))
	Pool(0, len(alphabet), func(i int) {
		dir := filepath.Join(scratch, fmt.Sprintf("owfresh%03d", i))
		writeTree(dir, OWInitial{})
		r := runStep(dir, i)
		fresh[i] = map[string]string{}
		freshExit[i] = r.Exit
		for _, w := range watched {
			fresh[i][w] = r.Files[w]
		}
		os.RemoveAll(dir)
	})
	// histories
	var seqs [][]int
	var rec func(prefix []int)
	rec = func(prefix []int) {
		if len(prefix) > 0 {
			seqs = append(seqs, append([]int(nil), prefix...))
		}
		if len(prefix) == depth {
			return
		}
		for i := range alphabet {
			rec(append(prefix, i))
		}
	}
	rec(nil)
	type job struct {
		init int
		seq  []int
	}
	var jobs []job
	for ii := range initials {
		for _, s := range seqs {
			jobs = append(jobs, job{ii, s})
		}
	}
	out := make([]OWObservation, len(jobs))
	Pool(0, len(jobs), func(j int) {
		jb := jobs[j]
		dir := filepath.Join(scratch, fmt.Sprintf("owhist%05d", j))
		writeTree(dir, initials[jb.init])
		ob := OWObservation{Initial: initials[jb.init].Name, Files: map[string]string{}}
		var last *CLIResult
		for _, i := range jb.seq {
			last = runStep(dir, i)
			ob.Steps = append(ob.Steps, alphabet[i].Name)
			ob.Exit = append(ob.Exit, last.Exit)
		}
		for _, w := range watched {
			ob.Files[w] = last.Files[w]
		}
		ob.Fresh = fresh[jb.seq[len(jb.seq)-1]]
		ob.Output = last.Output
		if len(ob.Output) > 2000 {
			ob.Output = ob.Output[len(ob.Output)-2000:]
		}
		out[j] = ob
		os.RemoveAll(dir)
	})
	_ = strings.TrimSpace
	return out
}
