#!/usr/bin/env python3
# sumrep.py Cxx [feature keys...] — summarises replays/<id>/*.json by oracle and the given feature keys
import json,glob,collections,sys
pid=sys.argv[1]; keys=sys.argv[2:]
c=collections.Counter(); ex={}
for f in glob.glob(f'/verif/replays/{pid}/*.json'):
    v=json.load(open(f))['violation']; ft=v['features']
    k=(v['oracle'],)+tuple(ft.get(x) for x in keys)
    c[k]+=1; ex.setdefault(k,(f,v['what'][:300]))
for k,n in sorted(c.items(),key=str): print(n,k,'\n     ',ex[k][1],'\n     ',ex[k][0])
try:
    d=json.load(open(f'/verif/evidence/{pid}.json'))['coverage']
    print({k:d[k] for k in d if k not in ('samples','rule','bound','outcome_histogram')})
except Exception as e: print(e)
