#!/bin/bash
# seedverify.sh <worktree> — confirms a seeded change: builds, existing suite still passes (apart from the two
# baseline failures and the seed's own demo), demo fails with the patch and passes without it.
wt="$1"; cd "$wt" || exit 2
export GOFLAGS=-mod=mod GOPROXY=off
git checkout -q -- e2e 2>/dev/null
if git diff --quiet; then git apply seed.patch || { echo "RESULT $wt patch-does-not-apply"; exit 1; }; fi
go build ./... || { echo "RESULT $wt build-fails"; exit 1; }
suite=$(go test -mod=mod -vet=off -count=1 ./... 2>&1 | grep -E "^(ok|FAIL|---)" | grep -v seed_demo)
git checkout -q -- e2e 2>/dev/null
fails=$(echo "$suite" | grep -E "^FAIL" | grep -v "test/units/gast/versioning\|test/visitors/route" | grep -vE "^FAIL$")
oks=$(echo "$suite" | grep -c "^ok")
rundemo() {
  # the command lines of RUN.txt (go / rm / cd / sh / bash / export / parenthesised), run as one script; status of the last one
  grep -vE "^\s*#" seed_demo/RUN.txt | grep -vE "git apply|git stash" | sed 's/^ *//' | grep -E '^(go |rm |cd |\(cd |sh |bash |export |GOFLAGS=)' | sed 's/ 2>&1 |.*$//' > /tmp/seeddemo.$$.sh
  bash /tmp/seeddemo.$$.sh > /tmp/seeddemo.out 2>&1; local rc=$?
  rm -f /tmp/seeddemo.$$.sh
  return $rc
}
rundemo; with=$?
git apply -R seed.patch
rundemo; without=$?
git apply seed.patch
git checkout -q -- e2e 2>/dev/null
echo "RESULT $wt suite_ok=$oks unexpected_fails=[$(echo $fails | tr '\n' ' ')] demo_with_patch_rc=$with demo_without_patch_rc=$without"
