package fam

import (
	"fmt"

	"verif/internal/scen"
)

// Collisions builds the name-collision family: declarations whose bare names coincide although they live in
// different packages (or coincide with the built-in error model). Every scenario must run alone - the colliding
// names are literal, not namespaced. What the documents should contain for such projects is for C07 to say; the
// family exists so that properties about *agreement* (3.0 vs 3.1, run vs run) see such projects at all.
func Collisions() Family {
	var cases []scen.Case
	add := func(name string, declA, declB string, retA, retB string) {
		id := fmt.Sprintf("x%04d", len(cases))
		mk := func(pkg, ret string) scen.Controller {
			return scen.Controller{Name: "C" + id + pkg, Pkg: id + "/" + pkg, Prefix: scen.S("/" + id + "/" + pkg), Tag: scen.S("T" + id + pkg),
				Methods: []scen.Method{{Name: "Get" + id + pkg, Verb: "GET", Route: scen.S("/one"), Ret: ret}}}
		}
		u := scen.Unit{Controllers: []scen.Controller{mk("a", retA), mk("b", retB)}, Decls: map[string]string{}}
		if declA != "" {
			u.Decls[id+"/a"] = declA
		}
		if declB != "" {
			u.Decls[id+"/b"] = declB
		}
		cases = append(cases, scen.Case{ID: id, Unit: u, Features: map[string]string{"family": "name-collision", "collision": name}, Desc: map[string]any{"collision": name, "controllers": u.Controllers, "decls": u.Decls}})
	}
	itemA := "type Item struct {\n\tSku string `json:\"sku\" validate:\"required\"`\n\tQty int    `json:\"qty\"`\n}\n"
	itemB := "type Item struct {\n\tPrice    float64 `json:\"price\" validate:\"required\"`\n\tCurrency string  `json:\"currency\" validate:\"required\"`\n}\n"
	add("struct-vs-struct", itemA, itemB, "Item", "Item")
	add("struct-vs-struct-in-slices", itemA, itemB, "[]Item", "[]Item")
	add("struct-vs-enum", itemA, "type Item string\n\nconst (\n\tItemX Item = \"x\"\n\tItemY Item = \"y\"\n)\n", "Item", "Item")
	add("struct-vs-alias", itemA, "type Item string\n", "Item", "Item")
	add("enum-vs-enum", "type Kind string\n\nconst (\n\tKindA Kind = \"a\"\n\tKindB Kind = \"b\"\n)\n", "type Kind string\n\nconst (\n\tKindC Kind = \"c\"\n)\n", "Kind", "Kind")
	add("user-struct-named-like-the-error-model", "type Rfc7807Error struct {\n\tMine string `json:\"mine\"`\n}\n", "", "Rfc7807Error", "")
	add("nested-field-types-collide", "type Inner struct {\n\tA string `json:\"a\"`\n}\n\ntype OuterA struct {\n\tIn Inner `json:\"in\"`\n}\n",
		"type Inner struct {\n\tB int `json:\"b\"`\n}\n\ntype OuterB struct {\n\tIn []Inner `json:\"in\"`\n}\n", "OuterA", "OuterB")
	// status codes that collide: an @ErrorResponse with the code of the success response (explicit or default)
	for _, resp := range []string{"200 fine", "", "201 made"} {
		id := fmt.Sprintf("x%04d", len(cases))
		code := "200"
		if resp != "" {
			code = resp[:3]
		}
		m := scen.Method{Name: "Get" + id, Verb: "POST", Route: scen.S("/one"), Ret: "Item", Response: resp, ErrResps: []string{code + " also an error", "500 boom"}}
		ctl := scen.Controller{Name: "C" + id, Pkg: id + "/a", Prefix: scen.S("/" + id + "/a"), Tag: scen.S("T" + id), Methods: []scen.Method{m}}
		u := scen.Unit{Controllers: []scen.Controller{ctl}, Decls: map[string]string{id + "/a": itemA}}
		cases = append(cases, scen.Case{ID: id, Unit: u, Features: map[string]string{"family": "name-collision", "collision": "error-response-code-equals-success-code " + code}, Desc: map[string]any{"controller": ctl}})
	}
	return Family{Name: "name-collision", Cases: cases, BaseCfg: DefaultCfg, PackSize: 1}
}
