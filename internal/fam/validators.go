package fam

import (
	"fmt"
	"strings"

	"verif/internal/scen"
)

// Validators builds the validator-rule family: every rule the converters understand x type kinds x sites.
func Validators(tier string) Family {
	rules := []string{"email", "uuid", "ip", "ipv4", "ipv6", "hostname", "date", "datetime", "gt=1", "gte=1", "lt=9", "lte=9", "min=1", "max=9", "len=3",
		"pattern=^a+$", "minItems=1", "maxItems=3", "uniqueItems=true", "enum=a|b", "oneof=a b", "oneof=1 2", "required", "gt=0,lt=10", "min=1,max=5,required",
		// bounds that are not small positive integers: fractions, negatives, zero, large values
		"max=9.5", "min=0.5", "gt=-1.5", "gte=-3", "lt=0", "lte=2.25", "min=-2,max=2.5", "max=0", "min=1000000", "len=0", "maxItems=0", "eq=5", "ne=3"}
	types := []struct{ name, goType, decl string }{
		{"string", "string", ""}, {"int", "int", ""}, {"float64", "float64", ""}, {"bool", "bool", ""}, {"[]string", "[]string", ""}, {"[]byte", "[]byte", ""},
		{"enum-ref", "VE§", "type VE§ string\n\nconst (\n\tVE§A VE§ = \"a\"\n\tVE§B VE§ = \"b\"\n)\n"},
		{"struct-ref", "VS§", "type VS§ struct {\n\tQ int `json:\"q\"`\n}\n"},
	}
	sites := []string{"field", "query", "body", "form"}
	var cases []scen.Case
	n := 0
	for _, r := range rules {
		for _, t := range types {
			for _, site := range sites {
				if (site == "query" || site == "form") && t.name == "struct-ref" {
					continue
				}
				if site == "form" && t.name == "[]string" {
					continue
				}
				if t.name == "[]byte" && site != "field" && site != "body" {
					continue
				}
				if (strings.HasPrefix(r, "enum=") || r == "oneof=a b") && t.name != "string" {
					continue // value lists are only meaningful for the matching primitive
				}
				if r == "oneof=1 2" && t.name != "string" && t.name != "int" && t.name != "float64" {
					continue
				}
				id := fmt.Sprintf("v%04d", n)
				n++
				sub := func(s string) string { return strings.ReplaceAll(s, "§", id) }
				decl := sub(t.decl)
				m := scen.Method{Name: "Op" + id, Verb: "POST", Route: scen.S("/op")}
				switch site {
				case "field":
					decl += "\ntype W" + id + " struct {\n\tF " + sub(t.goType) + " `json:\"f\" validate:\"" + r + "\"`\n}\n"
					m.Ret = "W" + id
				case "query":
					m.Params = []scen.Param{{Name: "p", Type: sub(t.goType), In: "Query", Validate: r}}
				case "body":
					m.Params = []scen.Param{{Name: "p", Type: sub(t.goType), In: "Body", Validate: r}}
				case "form":
					m.Params = []scen.Param{{Name: "p", Type: sub(t.goType), In: "FormField", Validate: r}}
				}
				ctl := scen.Controller{Name: "C" + id, Pkg: id, Prefix: scen.S("/" + id), Tag: scen.S("T" + id), Methods: []scen.Method{m}}
				u := scen.Unit{Controllers: []scen.Controller{ctl}, Decls: map[string]string{}}
				if decl != "" {
					u.Decls[id] = decl
				}
				feat := map[string]string{"family": "validators", "rule": strings.SplitN(r, "=", 2)[0], "rule-text": r, "type": t.name, "site": site}
				switch r {
				case "max=0", "len=0", "maxItems=0":
					feat["bound-shape"] = "zero-upper-bound"
				case "min=-2,max=2.5":
					feat["bound-shape"] = "negative-lower-bound"
				}
				cases = append(cases, scen.Case{ID: id, Unit: u, Features: feat, Desc: map[string]any{"controller": ctl, "decls": decl}})
			}
		}
	}
	return Family{Name: "validators", Cases: cases, BaseCfg: DefaultCfg, PackSize: 60}
}
