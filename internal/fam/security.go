package fam

import (
	"fmt"

	"verif/internal/scen"
)

// Security builds a small family of method/controller security shapes over the declared schemes s1, s2.
func Security() Family {
	shapes := [][]scen.Sec{nil, {{Scheme: "s1", Scopes: []string{}}}, {{Scheme: "s1", Scopes: []string{"a", "b"}}}, {{Scheme: "s1", Scopes: []string{"a"}}, {Scheme: "s2", Scopes: []string{"b"}}}, {{Scheme: "s1", Scopes: []string{"a"}}, {Scheme: "s1", Scopes: []string{"b"}}},
		// near misses of declared names: such projects must not yield a document at all
		{{Scheme: "S1", Scopes: []string{"a"}}}, {{Scheme: "s1", Scopes: []string{"a"}}, {Scheme: "s", Scopes: []string{}}}}
	var cases []scen.Case
	n := 0
	for mi, m := range shapes {
		for ci, c := range shapes {
			for _, deprecated := range []bool{false, true} {
				id := fmt.Sprintf("s%04d", 9000+n)
				n++
				ctl := scen.Controller{Name: "C" + id, Pkg: id, Prefix: scen.S("/" + id), Tag: scen.S("T" + id), Security: c}
				ctl.Methods = []scen.Method{{Name: "Op" + id, Verb: "POST", Route: scen.S("/op"), Security: m, Deprecated: deprecated}, {Name: "Sib" + id, Verb: "GET", Route: scen.S("/sib")}}
				cases = append(cases, scen.Case{ID: id, Unit: scen.Unit{Controllers: []scen.Controller{ctl}},
					Features: map[string]string{"family": "security", "method-shape": fmt.Sprint(mi), "controller-shape": fmt.Sprint(ci), "deprecated": fmt.Sprint(deprecated)}, Desc: ctl})
			}
		}
	}
	return Family{Name: "security", Cases: cases, BaseCfg: DefaultCfg, PackSize: 50}
}
