// Package scen turns feature structs into gleece projects (Go sources + JSON config) in scratch directories
// and runs them through the real pipeline in worker subprocesses (library seam) or the real CLI.
package scen

import (
	"encoding/json"
	"fmt"
	"os"
	"path/filepath"
	"sort"
	"strings"

	"verif/internal/core"
)

// ModulePath is the module of every generated scratch project.
const ModulePath = "scn"

// Project is a set of files plus the configuration document.
type Project struct {
	Files  map[string]string // relative path -> content
	Config map[string]any    // gleece.config.json document
}

func NewProject() *Project {
	return &Project{Files: map[string]string{}}
}

// ScratchRoot is where scratch projects live (outside /repo and /verif; removed by the caller).
func ScratchRoot() string {
	if s := os.Getenv("VERIF_SCRATCH"); s != "" {
		return s
	}
	return "/dev/shm"
}

var goModText string

// GoMod returns the go.mod of a scratch module: the require blocks of /repo (so every engine resolves from
// the module cache) plus the replace of gleece itself.
func GoMod() string {
	if goModText != "" {
		return goModText
	}
	b, err := os.ReadFile(filepath.Join(core.Repo(), "go.mod"))
	if err != nil {
		core.Harness("cannot read repo go.mod: %v", err)
	}
	var sb strings.Builder
	sb.WriteString("module " + ModulePath + "\n\ngo 1.24.7\n\n")
	in := false
	for _, l := range strings.Split(string(b), "\n") {
		if strings.HasPrefix(l, "require (") {
			in = true
		}
		if in {
			sb.WriteString(l + "\n")
		}
		if in && strings.HasPrefix(l, ")") {
			in = false
		}
	}
	goModText = sb.String()
	return goModText
}

// Write materialises the project under dir (created), including go.mod/go.sum and the config file.
func (p *Project) Write(dir string) error {
	if err := os.MkdirAll(dir, 0o755); err != nil {
		return err
	}
	files := map[string]string{"go.mod": GoMod()}
	sum, err := os.ReadFile(filepath.Join(core.Repo(), "go.sum"))
	if err != nil {
		return err
	}
	files["go.sum"] = string(sum)
	for k, v := range p.Files {
		files[k] = v
	}
	if p.Config != nil {
		b, _ := json.MarshalIndent(p.Config, "", "  ")
		files["gleece.config.json"] = string(b)
	}
	for rel, content := range files {
		full := filepath.Join(dir, rel)
		if err := os.MkdirAll(filepath.Dir(full), 0o755); err != nil {
			return err
		}
		if err := os.WriteFile(full, []byte(content), 0o644); err != nil {
			return err
		}
	}
	return nil
}

// SecurityScheme is one entry of openapiGeneratorConfig.securitySchemes.
func APIKeyScheme(name string) map[string]any {
	return map[string]any{"description": "key " + name, "name": name, "fieldName": "x-" + name, "type": "apiKey", "in": "header"}
}

// BaseConfig returns a complete valid configuration document.
func BaseConfig(engine, openapi string, globs []string) map[string]any {
	return map[string]any{
		"commonConfig": map[string]any{"controllerGlobs": globs},
		"routesConfig": map[string]any{
			"engine":                  engine,
			"packageName":             "routes",
			"outputPath":              "./dist/routes/gleece.routes.go",
			"outputFilePerms":         "0644",
			"skipGenerateDateComment": true,
			"authorizationConfig": map[string]any{
				"authFileFullPackageName":    ModulePath + "/auth",
				"enforceSecurityOnAllRoutes": false,
			},
		},
		"openapiGeneratorConfig": map[string]any{
			"openapi": openapi,
			"info": map[string]any{
				"title": "Scenario API", "description": "generated", "termsOfService": "http://example.com/terms/",
				"contact": map[string]any{"name": "Support", "url": "http://example.com/support", "email": "support@example.com"},
				"license": map[string]any{"name": "Apache 2.0", "url": "http://www.apache.org/licenses/LICENSE-2.0.html"},
				"version": "1.0.0",
			},
			"baseUrl":             "https://api.example.com/v1/",
			"securitySchemes":     []any{APIKeyScheme("s1"), APIKeyScheme("s2"), OAuthScheme("s9")},
			"specGeneratorConfig": map[string]any{"outputPath": "./dist/openapi.json"},
		},
	}
}

// OAuthScheme is an OAuth2 scheme with two flows whose scope sets differ (no scenario route uses it; it is there so
// that every document carries a scheme with structure worth comparing).
func OAuthScheme(name string) map[string]any {
	return map[string]any{"description": "oauth " + name, "name": name, "type": "oauth2", "flows": map[string]any{
		"implicit": map[string]any{"authorizationUrl": "https://id.example.com/auth", "scopes": map[string]any{"read": "read things"}},
		"password": map[string]any{"tokenUrl": "https://id.example.com/token", "refreshUrl": "https://id.example.com/refresh", "scopes": map[string]any{"write": "write things", "admin": "everything"}},
	}}
}

// AuthPackage is the user-side authorization package every generated routes file imports.
const AuthPackage = `package auth

import (
	"context"

	"github.com/gopher-fleece/runtime"
)

func GleeceRequestAuthorization(ctx context.Context, check runtime.SecurityCheck) (context.Context, *runtime.SecurityError) {
	return ctx, nil
}
`

// Set sets a nested config key ("routesConfig.engine").
func Set(cfg map[string]any, path string, v any) {
	parts := strings.Split(path, ".")
	m := cfg
	for _, p := range parts[:len(parts)-1] {
		n, ok := m[p].(map[string]any)
		if !ok {
			n = map[string]any{}
			m[p] = n
		}
		m = n
	}
	if v == nil {
		delete(m, parts[len(parts)-1])
	} else {
		m[parts[len(parts)-1]] = v
	}
}

// CloneConfig deep-copies a config document.
func CloneConfig(cfg map[string]any) map[string]any {
	b, _ := json.Marshal(cfg)
	var out map[string]any
	json.Unmarshal(b, &out)
	return out
}

func sortedKeys[V any](m map[string]V) []string {
	ks := make([]string, 0, len(m))
	for k := range m {
		ks = append(ks, k)
	}
	sort.Strings(ks)
	return ks
}

// Describe renders the project compactly for replay artefacts.
func (p *Project) Describe() map[string]any {
	return map[string]any{"files": p.Files, "config": p.Config}
}

func (p *Project) String() string {
	var sb strings.Builder
	for _, k := range sortedKeys(p.Files) {
		fmt.Fprintf(&sb, "--- %s\n%s\n", k, p.Files[k])
	}
	return sb.String()
}
