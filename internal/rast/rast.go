// Package rast reads a generated routes file with go/parser and extracts, per registered handler, the verb,
// the registered path, the SecurityCheckList literal passed to authorize() and the order of the first statements.
package rast

import (
	"fmt"
	"go/ast"
	"go/parser"
	"go/token"
	"strconv"
	"strings"
)

type Handler struct {
	Verb      string
	Path      string     // the string literal passed to to<Engine>Url
	Security  [][]string // alternatives, each a list of "scheme[scope,scope]"
	Authorize bool       // an authorize(...) call exists
	// AuthFirst: authorize is the first call statement and is immediately followed by `if authErr != nil { ...; return }`,
	// before any other statement that touches the request.
	AuthFirst bool
	Line      int
}

type File struct {
	Package  string
	Imports  map[string]string // alias -> path ("" alias = default)
	Handlers []Handler
	Fset     *token.FileSet
	AST      *ast.File
}

func lit(e ast.Expr) (string, bool) {
	b, ok := e.(*ast.BasicLit)
	if !ok || b.Kind != token.STRING {
		return "", false
	}
	s, err := strconv.Unquote(b.Value)
	return s, err == nil
}

func Parse(src string) (*File, error) {
	fset := token.NewFileSet()
	f, err := parser.ParseFile(fset, "routes.go", src, parser.ParseComments)
	if err != nil {
		return nil, err
	}
	out := &File{Package: f.Name.Name, Imports: map[string]string{}, Fset: fset, AST: f}
	for _, im := range f.Imports {
		p, _ := strconv.Unquote(im.Path.Value)
		alias := ""
		if im.Name != nil {
			alias = im.Name.Name
		}
		out.Imports[alias+"|"+p] = p
	}
	ast.Inspect(f, func(n ast.Node) bool {
		call, ok := n.(*ast.CallExpr)
		if !ok {
			return true
		}
		sel, ok := call.Fun.(*ast.SelectorExpr)
		if !ok {
			return true
		}
		recv, ok := sel.X.(*ast.Ident)
		if !ok || recv.Name != "engine" || len(call.Args) != 2 {
			return true
		}
		urlCall, ok := call.Args[0].(*ast.CallExpr)
		if !ok || len(urlCall.Args) != 1 {
			return true
		}
		path, ok := lit(urlCall.Args[0])
		if !ok {
			return true
		}
		fn, ok := call.Args[1].(*ast.FuncLit)
		if !ok {
			return true
		}
		h := Handler{Verb: strings.ToUpper(sel.Sel.Name), Path: path, Line: fset.Position(call.Pos()).Line}
		if h.Verb == "HANDLEFUNC" {
			h.Verb = "" // mux: the verb comes from the chained .Methods("GET")
		}
		analyseBody(fn.Body, &h)
		out.Handlers = append(out.Handlers, h)
		return true
	})
	// mux: engine.HandleFunc(...).Methods("GET") — find the chained call and copy the verb
	ast.Inspect(f, func(n ast.Node) bool {
		call, ok := n.(*ast.CallExpr)
		if !ok {
			return true
		}
		sel, ok := call.Fun.(*ast.SelectorExpr)
		if !ok || sel.Sel.Name != "Methods" || len(call.Args) < 1 {
			return true
		}
		inner, ok := sel.X.(*ast.CallExpr)
		if !ok {
			return true
		}
		verb, ok := lit(call.Args[0])
		if !ok {
			return true
		}
		line := fset.Position(inner.Pos()).Line
		for i := range out.Handlers {
			if out.Handlers[i].Line == line && out.Handlers[i].Verb == "" {
				out.Handlers[i].Verb = strings.ToUpper(verb)
			}
		}
		return true
	})
	return out, nil
}

func isAuthorizeAssign(s ast.Stmt) (*ast.CallExpr, bool) {
	as, ok := s.(*ast.AssignStmt)
	if !ok || len(as.Rhs) != 1 {
		return nil, false
	}
	call, ok := as.Rhs[0].(*ast.CallExpr)
	if !ok {
		return nil, false
	}
	id, ok := call.Fun.(*ast.Ident)
	if !ok || id.Name != "authorize" {
		return nil, false
	}
	return call, true
}

// harmless reports statements that may precede authorization without touching controller code or request
// parsing: setting a response header (route-start extension point) and blank lines/comments.
func harmless(s ast.Stmt) bool {
	es, ok := s.(*ast.ExprStmt)
	if !ok {
		return false
	}
	call, ok := es.X.(*ast.CallExpr)
	if !ok {
		return false
	}
	txt := exprString(call.Fun)
	return strings.HasSuffix(txt, ".Header") || strings.HasSuffix(txt, ".Header().Set") || strings.HasSuffix(txt, ".Set")
}

func exprString(e ast.Expr) string {
	switch x := e.(type) {
	case *ast.Ident:
		return x.Name
	case *ast.SelectorExpr:
		return exprString(x.X) + "." + x.Sel.Name
	case *ast.CallExpr:
		return exprString(x.Fun) + "()"
	}
	return "?"
}

func analyseBody(body *ast.BlockStmt, h *Handler) {
	for i, s := range body.List {
		call, ok := isAuthorizeAssign(s)
		if !ok {
			continue
		}
		h.Authorize = true
		h.Security = parseLists(call)
		first := true
		for _, prev := range body.List[:i] {
			if !harmless(prev) {
				first = false
			}
		}
		guarded := false
		if i+1 < len(body.List) {
			if ifs, ok := body.List[i+1].(*ast.IfStmt); ok {
				if be, ok := ifs.Cond.(*ast.BinaryExpr); ok && be.Op == token.NEQ && exprString(be.X) == "authErr" {
					if n := len(ifs.Body.List); n > 0 {
						if _, isRet := ifs.Body.List[n-1].(*ast.ReturnStmt); isRet {
							guarded = true
						}
					}
				}
			}
		}
		h.AuthFirst = first && guarded
		return
	}
}

func parseLists(call *ast.CallExpr) [][]string {
	if len(call.Args) != 2 {
		return nil
	}
	outer, ok := call.Args[1].(*ast.CompositeLit)
	if !ok {
		return nil
	}
	var alts [][]string
	for _, le := range outer.Elts {
		list, ok := le.(*ast.CompositeLit)
		if !ok {
			continue
		}
		var checks []string
		for _, fe := range list.Elts {
			kv, ok := fe.(*ast.KeyValueExpr)
			if !ok || exprString(kv.Key) != "Checks" {
				continue
			}
			cl, ok := kv.Value.(*ast.CompositeLit)
			if !ok {
				continue
			}
			for _, ce := range cl.Elts {
				check, ok := ce.(*ast.CompositeLit)
				if !ok {
					continue
				}
				name := ""
				var scopes []string
				for _, f := range check.Elts {
					kv2, ok := f.(*ast.KeyValueExpr)
					if !ok {
						continue
					}
					switch exprString(kv2.Key) {
					case "SchemaName":
						name, _ = lit(kv2.Value)
					case "Scopes":
						if sl, ok := kv2.Value.(*ast.CompositeLit); ok {
							for _, se := range sl.Elts {
								if s, ok := lit(se); ok {
									scopes = append(scopes, s)
								}
							}
						}
					}
				}
				checks = append(checks, fmt.Sprintf("%s[%s]", name, strings.Join(scopes, ",")))
			}
		}
		alts = append(alts, checks)
	}
	return alts
}
