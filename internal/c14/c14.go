// Package c14 decides C14 (every run terminates with success or a reported error, never a crash or hang) by
// enumerating hostile-but-compilable inputs — unsupported type shapes at every usage site, malformed annotation
// lines at every annotatable position, validator strings with missing / non-numeric / extreme arguments,
// truncated and ill-typed configuration documents — and running the real CLI binary on each of them for each
// command, one fresh process per input.
package c14

import (
	"encoding/json"
	"fmt"
	"os"
	"path/filepath"
	"sort"
	"strings"
	"sync"
	"time"

	"verif/internal/core"
	"verif/internal/fam"
	"verif/internal/scen"
)

type input struct {
	ID     string
	Feat   map[string]string
	P      *scen.Project
	RawCfg *string // when set, written instead of the JSON config
	Cmds   [][]string
}

var allCmds = [][]string{
	{"generate", "spec-and-routes", "-c", "./gleece.config.json"},
	{"generate", "spec", "-c", "./gleece.config.json"},
	{"generate", "routes", "-c", "./gleece.config.json"},
	{"dump", "graph", "-c", "./gleece.config.json", "-f", "plain"},
	{}, // the bare root command
}

var mainCmd = allCmds[:1]

func project(id string, unit scen.Unit) *scen.Project {
	p := scen.NewProject()
	globs := scen.Render(p, []scen.Unit{unit})
	p.Files["auth/auth.go"] = scen.AuthPackage
	p.Config = scen.BaseConfig("gin", "3.0.0", globs)
	b, _ := json.MarshalIndent(scen.BaseConfig("gin", "3.1.0", globs), "", "  ")
	p.Files["gleece31.config.json"] = string(b)
	return p
}

// cmd31 generates the spec of the same project as OpenAPI 3.1.0 (a separate generator and converter)
var cmd31 = []string{"generate", "spec", "-c", "./gleece31.config.json"}

// ---- (a) type shapes x sites ---------------------------------------------------------------------------------

type shape struct {
	Name, Go, Decl string
	Imports        []string
}

func shapes() []shape {
	return []shape{
		{"generic-of-primitive", "Page§[int]", "type Page§[T any] struct {\n\tItems []T `json:\"items\"`\n}\n", nil},
		{"generic-of-struct", "Page§[It§]", "type Page§[T any] struct {\n\tItems []T `json:\"items\"`\n}\n\ntype It§ struct {\n\tV int `json:\"v\"`\n}\n", nil},
		{"generic-two-args", "Pair§[string, int]", "type Pair§[A any, B any] struct {\n\tL A `json:\"l\"`\n\tR B `json:\"r\"`\n}\n", nil},
		{"generic-nested", "Page§[Page§[int]]", "type Page§[T any] struct {\n\tItems []T `json:\"items\"`\n}\n", nil},
		{"inline-struct", "struct{ A int }", "", nil},
		{"func", "func(int) string", "", nil},
		{"func-grouped-parameter-names", "func(a, b int) bool", "", nil},
		{"func-named-grouped-results", "func() (n, m int)", "", nil},
		{"func-variadic", "func(xs ...string)", "", nil},
		{"func-of-func", "func(f func(int) int) func() error", "", nil},
		{"chan", "chan int", "", nil},
		{"chan-directional", "<-chan string", "", nil},
		{"interface{}", "interface{}", "", nil},
		{"any", "any", "", nil},
		{"named-interface", "Shape§", "type Shape§ interface {\n\tArea() float64\n}\n", nil},
		{"fixed-array", "[3]int", "", nil},
		{"mutual-recursion", "MA§", "type MA§ struct {\n\tB *MB§ `json:\"b\"`\n}\n\ntype MB§ struct {\n\tA *MA§ `json:\"a\"`\n}\n", nil},
		{"self-recursion", "SR§", "type SR§ struct {\n\tNext *SR§ `json:\"next\"`\n\tKids []SR§ `json:\"kids\"`\n}\n", nil},
		{"pointer-to-pointer", "**string", "", nil},
		{"map-int-key", "map[int]string", "", nil},
		{"nested-maps", "map[string]map[string]int", "", nil},
		{"unsafe-pointer", "unsafe.Pointer", "", []string{"unsafe"}},
		{"complex", "complex128", "", nil},
		{"error-value", "error", "", nil},
		{"embedded-pointer", "EP§", "type Emb§ struct {\n\tX int `json:\"x\"`\n}\n\ntype EP§ struct {\n\t*Emb§\n\tY int `json:\"y\"`\n}\n", nil},
		{"slice-of-pointers", "[]*string", "", nil},
		{"time.Duration", "time.Duration", "", []string{"time"}},
		{"alias-of-time", "Stamp§", "type Stamp§ = time.Time\n", []string{"time"}},
		{"alias-of-slice", "Ids§", "type Ids§ []string\n", nil},
		{"alias-of-map", "Dict§", "type Dict§ map[string]int\n", nil},
		{"struct-with-func-field", "FF§", "type FF§ struct {\n\tCb func() `json:\"-\"`\n\tN int `json:\"n\"`\n}\n", nil},
		{"empty-struct", "Empty§", "type Empty§ struct{}\n", nil},
		{"uintptr", "uintptr", "", nil},
		{"rune-and-byte", "rune", "", nil},
		// enums written in unusual but legal ways
		{"enum-with-aliased-constants", "EDup§", "type EDup§ string\n\nconst (\n\tEDup§A EDup§ = \"a\"\n\tEDup§B EDup§ = \"b\"\n\tEDup§Default EDup§ = EDup§A\n\tEDup§Also EDup§ = \"b\"\n)\n", nil},
		{"enum-int-with-equal-values", "EEq§", "type EEq§ int\n\nconst (\n\tEEq§One EEq§ = 1\n\tEEq§Uno EEq§ = 1\n\tEEq§Two EEq§ = 2\n)\n", nil},
		{"enum-without-constants", "ENo§", "type ENo§ string\n\nvar ENo§Default ENo§ = \"x\"\n", nil},
		{"enum-single-constant", "EOne§", "type EOne§ string\n\nconst EOne§Only EOne§ = \"only\"\n", nil},
	}
}

var sites = []string{"query", "body", "return", "field", "typedef", "assigned-alias", "generic-arg", "slice-return", "map-field"}

func shapeInputs(tier string) []input {
	var out []input
	n := 0
	for _, sh := range shapes() {
		for _, site := range sites {
			id := fmt.Sprintf("x%04d", n)
			n++
			sub := func(s string) string { return strings.ReplaceAll(s, "§", id) }
			t, decl := sub(sh.Go), sub(sh.Decl)
			m := scen.Method{Name: "Op" + id, Verb: "POST", Route: scen.S("/op")}
			switch site {
			case "query":
				m.Params = []scen.Param{{Name: "p", Type: t, In: "Query"}}
			case "body":
				m.Params = []scen.Param{{Name: "p", Type: t, In: "Body"}}
			case "return":
				m.Ret = t
			case "slice-return":
				m.Ret = "[]" + t
			case "field":
				decl += "\ntype W" + id + " struct {\n\tF " + t + " `json:\"f\"`\n}\n"
				m.Ret = "W" + id
			case "map-field":
				decl += "\ntype W" + id + " struct {\n\tF map[string]" + t + " `json:\"f\"`\n}\n"
				m.Ret = "W" + id
			case "typedef":
				decl += "\ntype X" + id + " " + t + "\n"
				m.Ret = "X" + id
			case "assigned-alias":
				decl += "\ntype X" + id + " = " + t + "\n"
				m.Ret = "X" + id
			case "generic-arg":
				decl += "\ntype Box" + id + "[T any] struct {\n\tV T `json:\"v\"`\n}\n"
				m.Ret = "Box" + id + "[" + t + "]"
			}
			ctl := scen.Controller{Name: "C" + id, Pkg: id, Prefix: scen.S("/" + id), Tag: scen.S("T" + id), Methods: []scen.Method{m}}
			u := scen.Unit{Controllers: []scen.Controller{ctl}, Decls: map[string]string{}, Imports: map[string][]string{id: sh.Imports}}
			if decl != "" {
				u.Decls[id] = decl
			}
			cmds := mainCmd
			if tier == "thorough" {
				cmds = allCmds
			} else if site == "return" {
				cmds = [][]string{allCmds[0], allCmds[3], allCmds[4]}
			}
			cmds = append(append([][]string{}, cmds...), cmd31)
			out = append(out, input{ID: id, Feat: map[string]string{"family": "type-shape", "shape": sh.Name, "site": site}, P: project(id, u), Cmds: cmds})
		}
	}
	return out
}

// ---- (b) malformed annotations x positions -------------------------------------------------------------------

func annotationInputs(tier string) []input {
	lines := []string{
		"// @Query(a, {name:})", "// @Query(a, {name}", "// @Query(a, {name: \"x\"", "// @Query(a, {name: \"x\"}}", "// @Query(a, {\"name\": [1,2})", "// @Query(, {})",
		"// @Query()", "// @Query(a,)", "// @Query(a b c)", "// @Security(s1, { scopes: \"notalist\" })", "// @Security(s1, { scopes: [1, 2] })", "//", "// ", "//\n//", "//\n// text after an empty first line\n//", "// @Security(, { scopes: [] })", "// @Security(s1, { scopes: [null] })", "// @Security(s1, { scopes: null })", "// @Security(s1, { scopes: [\"a\", null] })", "// @Security(s1, { scopes: {} })", "// @Security(s1, null)",
		"// @Query(a, { name: null })", "// @Query(a, { validate: null })", "// @Query(a, { name: [\"x\"] })", "// @Query(a, { validate: 5 })", "// @Query(a, { name: {} })", "// @Route(/x, { a: null })", "// @Tag(T, null)",
		"// @Response(abc)", "// @Response(99999999999999999999)", "// @Response(-1)", "// @ErrorResponse(4xx)", "// @ErrorResponse()", "// @Method()", "// @Method(GET, {x: 1})",
		"// @Route()", "// @Route({)", "// @Route(/a/{)", "// @Route(/a/{}/b)", "// @Route(/{a}{b})", "// @TemplateContext(X, {a: 1})", "// @TemplateContext(X, {a: 1}) again", "// @Unknown(thing)",
		"// @Hidden(CONDITION, { env: { var: 1 } })", "// @Deprecated({)", "// @Tag()", "// @Description", "// @Path(p, { name: 5 })", "// @Path(p, { validate: 5 })", "// @Header(p, { name: null })",
		"// @Body(p, [1,2,3])", "// @Query(p, {name: 'ü✓'})", "// @Query(p, {validate: \"required,\"})", "// @Query(p, {validate: \",,,\"})",
	}
	positions := []string{"method", "controller", "field", "enum-value", "struct"}
	var out []input
	n := 0
	for _, l := range lines {
		for _, pos := range positions {
			if tier != "thorough" && pos != "method" && pos != "controller" && n%3 != 0 {
				n++
				continue
			}
			id := fmt.Sprintf("y%04d", n)
			n++
			m := scen.Method{Name: "Op" + id, Verb: "GET", Route: scen.S("/op"), Params: []scen.Param{{Name: "p", Type: "string", In: "Query"}}, Ret: "W" + id}
			ctl := scen.Controller{Name: "C" + id, Pkg: id, Prefix: scen.S("/" + id), Tag: scen.S("T" + id)}
			fieldDoc, enumDoc, structDoc := "", "", ""
			switch pos {
			case "method":
				m.Extra = []string{l}
				if strings.HasPrefix(l, "//\n") || l == "//" || l == "// " {
					m.Extra, m.Lead = nil, strings.Split(l, "\n") // comment-only lines open the doc comment
				}
			case "controller":
				ctl.Extra = []string{l}
				if strings.HasPrefix(l, "//\n") || l == "//" || l == "// " {
					ctl.Extra, ctl.Lead = nil, strings.Split(l, "\n")
				}
			case "field":
				fieldDoc = "\t" + l + "\n"
			case "enum-value":
				enumDoc = "\t" + l + "\n"
			case "struct":
				structDoc = l + "\n"
			}
			ctl.Methods = []scen.Method{m}
			decl := structDoc + "type W" + id + " struct {\n" + fieldDoc + "\tF E" + id + " `json:\"f\"`\n}\n\ntype E" + id + " string\n\nconst (\n" + enumDoc + "\tE" + id + "A E" + id + " = \"a\"\n)\n"
			u := scen.Unit{Controllers: []scen.Controller{ctl}, Decls: map[string]string{id: decl}}
			out = append(out, input{ID: id, Feat: map[string]string{"family": "annotation", "line": l, "position": pos}, P: project(id, u), Cmds: [][]string{mainCmd[0], cmd31}})
		}
	}
	return out
}

// ---- (c) validator strings ---------------------------------------------------------------------------------------

func validatorInputs(tier string) []pairCase {
	rules := []string{"gt", "gte", "lt", "lte", "min", "max", "len", "minItems", "maxItems", "uniqueItems", "pattern", "enum", "oneof", "email", "required", "eq", "dive", "unknownrule"}
	args := []struct{ name, text string }{{"no-value", ""}, {"empty", "="}, {"non-numeric", "=abc"}, {"negative", "=-5"}, {"huge", "=99999999999999999999999"}, {"float", "=1.5"}, {"spaces", "= 3"}, {"repeated-values", "=a b a"}, {"repeated-numbers", "=2 2 1"}, {"pipes-repeated", "=a|b|a"}}
	kinds := []struct{ name, goType string }{{"string", "string"}, {"int", "int"}, {"float64", "float64"}, {"bool", "bool"}, {"[]string", "[]string"}, {"struct", "VS§"}, {"enum", "VEn§"}}
	sitesV := []string{"field", "query", "body", "form"}
	var out []pairCase
	n := 0
	for _, r := range rules {
		for _, a := range args {
			for _, k := range kinds {
				for _, site := range sitesV {
					if (site == "query" || site == "form") && (k.name == "struct" || (site == "form" && k.name == "[]string")) {
						continue
					}
					if tier != "thorough" && !(k.name == "string" || k.name == "int" || k.name == "enum" || (k.name == "[]string" && site != "body") || (k.name == "struct" && site == "field")) {
						continue
					}
					if tier != "thorough" && (a.name == "float" || a.name == "spaces") && site != "field" {
						continue
					}
					id := fmt.Sprintf("z%04d", n)
					n++
					v := r + a.text
					t := strings.ReplaceAll(k.goType, "§", id)
					decl := "type VS" + id + " struct {\n\tQ int `json:\"q\"`\n}\n\ntype VEn" + id + " string\n\nconst (\n\tVEn" + id + "A VEn" + id + " = \"a\"\n\tVEn" + id + "B VEn" + id + " = \"b\"\n)\n"
					m := scen.Method{Name: "Op" + id, Verb: "POST", Route: scen.S("/op")}
					switch site {
					case "field":
						decl += "\ntype W" + id + " struct {\n\tF " + t + " `json:\"f\" validate:\"" + v + "\"`\n}\n"
						m.Ret = "W" + id
					case "query":
						m.Params = []scen.Param{{Name: "p", Type: t, In: "Query", Validate: v}}
						m.Ret = "VS" + id
					case "form":
						m.Params = []scen.Param{{Name: "p", Type: t, In: "FormField", Validate: v}}
						m.Ret = "VS" + id
					case "body":
						if k.name != "struct" && k.name != "[]string" {
							t = "[]" + t
						}
						m.Params = []scen.Param{{Name: "p", Type: t, In: "Body", Validate: v}}
						m.Ret = "VS" + id
					}
					ctl := scen.Controller{Name: "C" + id, Pkg: id, Prefix: scen.S("/" + id), Tag: scen.S("T" + id), Methods: []scen.Method{m}}
					u := scen.Unit{Controllers: []scen.Controller{ctl}, Decls: map[string]string{id: decl}}
					out = append(out, pairCase{ID: id, Feat: map[string]string{"family": "validator", "rule": r, "arg": a.name, "kind": k.name, "site": site, "validate": v}, Unit: u})
				}
			}
		}
	}
	return out
}

// ---- (c2) validator strings made of two rules ---------------------------------------------------------------------
//
// Converters keep state between the rules of one tag (a minimum seen earlier, a type decided earlier), so every
// ordered pair of (rule, argument form) atoms is run too. The scenarios are packed; a pack whose command does not
// exit 0 is bisected down to the offending scenario, so that every scenario is exercised in a run that got past
// the others.

type pairCase struct {
	ID   string
	Feat map[string]string
	Unit scen.Unit
}

func validatorPairCases(tier string) []pairCase {
	var atoms []string
	for _, r := range []string{"min", "max", "len", "gt", "gte", "lt", "lte", "eq", "oneof"} {
		for _, a := range []string{"=3", "=abc", "=-5", ""} {
			atoms = append(atoms, r+a)
		}
	}
	atoms = append(atoms, "required", "email", "omitempty", "dive", "oneof=a b a", "oneof=2 1 2", "enum=a|b|a", "oneof=' ' , ;", "oneof='a b' 'c'", "oneof='")
	kinds := []struct{ name, goType string }{{"string", "string"}, {"int", "int"}, {"[]string", "[]string"}}
	if tier == "thorough" {
		kinds = append(kinds, struct{ name, goType string }{"float64", "float64"}, struct{ name, goType string }{"*string", "*string"})
	}
	var out []pairCase
	n := 0
	for _, k := range kinds {
		for _, a := range atoms {
			for _, b := range atoms {
				if a == b {
					continue
				}
				id := fmt.Sprintf("y%04d", n)
				n++
				v := a + "," + b
				decl := "type W" + id + " struct {\n\tF " + k.goType + " `json:\"f\" validate:\"" + v + "\"`\n}\n"
				m := scen.Method{Name: "Op" + id, Verb: "POST", Route: scen.S("/op"), Ret: "W" + id}
				if k.name != "[]string" || true {
					m.Params = []scen.Param{{Name: "p", Type: k.goType, In: "Query", Validate: v}}
				}
				ctl := scen.Controller{Name: "C" + id, Pkg: id, Prefix: scen.S("/" + id), Tag: scen.S("T" + id), Methods: []scen.Method{m}}
				out = append(out, pairCase{ID: id, Feat: map[string]string{"family": "validator-pair", "first": a, "second": b, "kind": k.name, "validate": v},
					Unit: scen.Unit{Controllers: []scen.Controller{ctl}, Decls: map[string]string{id: decl}}})
			}
		}
	}
	return out
}

func replayPairID(replay string) string {
	if replay == "" {
		return ""
	}
	_, v := core.LoadReplay(replay)
	id, _ := v.Case.(map[string]any)["id"].(string)
	return id
}

func validatorPairs(run *core.Run, scratch, tier string, deadline time.Time, only string) {
	cases := append(validatorInputs(tier), validatorPairCases(tier)...)
	if only != "" {
		var sel []pairCase
		for _, c := range cases {
			if c.ID == only {
				sel = append(sel, c)
			}
		}
		cases = sel
	}
	type group struct {
		cs  []pairCase
		ver string
	}
	var mu sync.Mutex
	runs, bisections, skipped := 0, 0, 0
	seq := 0
	var exec func(g group)
	exec = func(g group) {
		if time.Now().After(deadline) {
			mu.Lock()
			skipped += len(g.cs)
			mu.Unlock()
			return
		}
		p := scen.NewProject()
		var units []scen.Unit
		for _, c := range g.cs {
			units = append(units, c.Unit)
		}
		globs := scen.Render(p, units)
		p.Files["auth/auth.go"] = scen.AuthPackage
		p.Config = scen.BaseConfig("gin", g.ver, globs)
		mu.Lock()
		seq++
		dir := filepath.Join(scratch, fmt.Sprintf("pair%05d", seq))
		runs++
		mu.Unlock()
		if err := p.Write(dir); err != nil {
			core.Harness("cannot write project: %v", err)
		}
		horizon := 90 + len(g.cs)
		r := scen.RunCLI(dir, mainCmd[0], horizon)
		if r.TimedOut {
			if r2 := scen.RunCLI(dir, mainCmd[0], horizon*2); !r2.TimedOut {
				r = r2
			}
		}
		os.RemoveAll(dir)
		crashed := r.TimedOut || strings.Contains(r.Output, "panic:") || strings.Contains(r.Output, "goroutine 1 [") || strings.Contains(r.Output, "runtime error:") || r.Exit == 2
		ok := !crashed && r.Exit == 0 && r.Files["dist/openapi.json"] != "" && r.Files["dist/routes/gleece.routes.go"] != ""
		if !ok && len(g.cs) > 1 {
			mu.Lock()
			bisections++
			mu.Unlock()
			mid := len(g.cs) / 2
			exec(group{g.cs[:mid], g.ver})
			exec(group{g.cs[mid:], g.ver})
			return
		}
		mu.Lock()
		defer mu.Unlock()
		for _, c := range g.cs {
			run.AddStates(1)
			run.AddValidated(1)
			feat := map[string]string{"command": "generate spec-and-routes", "family": c.Feat["family"], "openapi": g.ver}
			cs := map[string]any{"id": c.ID, "features": c.Feat, "openapi": g.ver, "unit": c.Unit}
			class := "exit0"
			switch {
			case ok:
			case r.TimedOut:
				class = "timeout"
				run.Report(core.Violation{Oracle: "terminates-within-horizon", Features: feat, What: fmt.Sprintf("`gleece generate spec-and-routes` (openapi %s) did not terminate within %d s for validate:%q on %s", g.ver, horizon, c.Feat["validate"], c.Feat["kind"]), Case: cs})
			case crashed:
				class = "panic"
				feat["panic"] = panicSite(r.Output)
				run.Report(core.Violation{Oracle: "never-panics", Features: feat, What: fmt.Sprintf("`gleece generate spec-and-routes` (openapi %s) crashed for validate:%q on %s: %s", g.ver, c.Feat["validate"], c.Feat["kind"], panicLine(r.Output)), Case: cs, Observed: tailOf(r.Output, 30)})
			case r.Exit == 0:
				class = "exit0-without-artifacts"
				run.Report(core.Violation{Oracle: "exit-zero-means-artifacts-written", Features: feat, What: fmt.Sprintf("exit 0 without both artifacts for validate:%q on %s: %s", c.Feat["validate"], c.Feat["kind"], tailOf(r.Output, 3)), Case: cs})
			default:
				class = "exit-nonzero"
				if strings.TrimSpace(r.Output) == "" {
					class = "silent-failure"
					run.Report(core.Violation{Oracle: "failure-carries-a-message", Features: feat, What: fmt.Sprintf("exit %d without any message for validate:%q on %s", r.Exit, c.Feat["validate"], c.Feat["kind"]), Case: cs})
				}
			}
			run.Outcome(c.Feat["family"]+"/"+g.ver+": "+class, 1)
		}
		run.AddTransitions(1)
	}
	var groups []group
	for _, ver := range []string{"3.0.0", "3.1.0"} {
		for i := 0; i < len(cases); i += 120 {
			groups = append(groups, group{cases[i:min(i+120, len(cases))], ver})
		}
	}
	scen.Pool(0, len(groups), func(i int) { exec(groups[i]) })
	if skipped > 0 {
		run.Cap(fmt.Sprintf("deadline reached: %d validator-pair scenarios not executed", skipped))
	}
	run.Set("validator_pair_scenarios", len(cases))
	run.Set("validator_pair_cli_runs", runs)
	run.Set("validator_pair_bisections", bisections)
}

// ---- (d) configuration documents -------------------------------------------------------------------------------

func configInputs(tier string) []input {
	var out []input
	n := 0
	sig, _ := fam.Signature("quick")
	base := sig.Cases[0]
	mk := func(name string, mutate func(cfg map[string]any) *string) {
		id := fmt.Sprintf("q%04d", n)
		n++
		p := project(id, base.Unit)
		raw := mutate(p.Config)
		cmds := allCmds
		if tier != "thorough" {
			cmds = [][]string{allCmds[0], allCmds[3], allCmds[4]}
		}
		out = append(out, input{ID: id, Feat: map[string]string{"family": "config", "mutation": name}, P: p, RawCfg: raw, Cmds: cmds})
	}
	full := func(cfg map[string]any) string { b, _ := json.MarshalIndent(cfg, "", " "); return string(b) }
	mk("valid", func(cfg map[string]any) *string { return nil })
	for _, frac := range []int{0, 1, 10, 50, 90, 99} {
		frac := frac
		mk(fmt.Sprintf("truncated-%d%%", frac), func(cfg map[string]any) *string { s := full(cfg); s = s[:len(s)*frac/100]; return &s })
	}
	for _, txt := range []string{"", "null", "[]", "42", "\"string\"", "{", "{}", "{\"commonConfig\": null}", "{\"routesConfig\": []}", "// only a comment", "{a:1,}", "\x00\x01\x02"} {
		txt := txt
		mk("document="+fmt.Sprintf("%q", txt), func(cfg map[string]any) *string { return &txt })
	}
	paths := []string{"commonConfig", "commonConfig.controllerGlobs", "routesConfig", "routesConfig.engine", "routesConfig.outputPath", "routesConfig.outputFilePerms", "routesConfig.authorizationConfig",
		"routesConfig.authorizationConfig.authFileFullPackageName", "routesConfig.templateOverrides", "routesConfig.templateExtensions", "openapiGeneratorConfig", "openapiGeneratorConfig.openapi",
		"openapiGeneratorConfig.info", "openapiGeneratorConfig.info.contact", "openapiGeneratorConfig.baseUrl", "openapiGeneratorConfig.securitySchemes", "openapiGeneratorConfig.defaultSecurity",
		"openapiGeneratorConfig.specGeneratorConfig", "openapiGeneratorConfig.specGeneratorConfig.outputPath", "experimentalConfig"}
	values := []struct {
		name string
		v    any
	}{{"null", json.RawMessage("null")}, {"number", 5}, {"string", "x"}, {"array", []any{1}}, {"object", map[string]any{"k": "v"}}, {"bool", true}, {"empty-string", ""}, {"empty-array", []any{}}}
	for _, pth := range paths {
		for _, val := range values {
			pth, val := pth, val
			if tier != "thorough" && (val.name == "bool" || val.name == "empty-array") {
				continue
			}
			mk("set "+pth+"="+val.name, func(cfg map[string]any) *string { scen.Set(cfg, pth, val.v); return nil })
		}
		pth := pth
		mk("delete "+pth, func(cfg map[string]any) *string { scen.Set(cfg, pth, nil); return nil })
	}
	for _, special := range []struct {
		name string
		f    func(cfg map[string]any)
	}{
		{"glob-matches-nothing", func(cfg map[string]any) { scen.Set(cfg, "commonConfig.controllerGlobs", []any{"./nothing/*.go"}) }},
		{"glob-malformed", func(cfg map[string]any) { scen.Set(cfg, "commonConfig.controllerGlobs", []any{"./[unclosed"}) }},
		{"glob-matches-non-go", func(cfg map[string]any) { scen.Set(cfg, "commonConfig.controllerGlobs", []any{"./go.mod"}) }},
		{"output-into-a-file-as-dir", func(cfg map[string]any) { scen.Set(cfg, "routesConfig.outputPath", "./go.mod/routes.go") }},
		{"spec-output-into-a-file-as-dir", func(cfg map[string]any) {
			scen.Set(cfg, "openapiGeneratorConfig.specGeneratorConfig.outputPath", "./go.mod/spec.json")
		}},
		{"template-override-missing-file", func(cfg map[string]any) {
			scen.Set(cfg, "routesConfig.templateOverrides", map[string]any{"Routes": "./missing.hbs"})
		}},
		{"template-override-unknown-partial", func(cfg map[string]any) {
			scen.Set(cfg, "routesConfig.templateOverrides", map[string]any{"NoSuchPartial": "./go.mod"})
		}},
		{"template-extension-unknown", func(cfg map[string]any) {
			scen.Set(cfg, "routesConfig.templateExtensions", map[string]any{"NoSuchExtension": "./go.mod"})
		}},
		{"template-override-garbage", func(cfg map[string]any) {
			scen.Set(cfg, "routesConfig.templateOverrides", map[string]any{"Routes": "./go.mod"})
		}},
		{"security-scheme-without-fields", func(cfg map[string]any) {
			scen.Set(cfg, "openapiGeneratorConfig.securitySchemes", []any{map[string]any{}})
		}},
		{"oauth2-flows-null-scopes", func(cfg map[string]any) {
			scen.Set(cfg, "openapiGeneratorConfig.securitySchemes", []any{map[string]any{"description": "d", "name": "o", "type": "oauth2", "in": "header", "fieldName": "f", "flows": map[string]any{"implicit": map[string]any{"authorizationUrl": "http://x", "scopes": nil}}}})
		}},
	} {
		special := special
		mk(special.name, func(cfg map[string]any) *string { special.f(cfg); return nil })
	}
	return out
}

// ---- running ------------------------------------------------------------------------------------------------------

type verdict struct {
	in  input
	cmd []string
	res *scen.CLIResult
}

func Main(tier, replay string) {
	run := core.NewRun("C14", tier)
	run.MaxViol = 60
	scratch := scen.MkScratch("c14")
	defer os.RemoveAll(scratch)
	inputs := append(append(shapeInputs(tier), annotationInputs(tier)...), configInputs(tier)...)
	if replay != "" {
		_, v := core.LoadReplay(replay)
		id, _ := v.Case.(map[string]any)["id"].(string)
		var sel []input
		for _, in := range inputs {
			if in.ID == id {
				in.Cmds = allCmds
				sel = append(sel, in)
			}
		}
		if len(sel) == 0 && !strings.HasPrefix(id, "y") && !strings.HasPrefix(id, "z") {
			core.Harness("replay: input %q not in the enumeration", id)
		}
		inputs = sel
	}
	deadline := core.Deadline(tier, 12*time.Minute, 60*time.Minute)
	type job struct {
		in  int
		cmd int
	}
	var jobs []job
	for i, in := range inputs {
		for c := range in.Cmds {
			jobs = append(jobs, job{i, c})
		}
	}
	results := make([]*scen.CLIResult, len(jobs))
	horizon := 90
	scen.Pool(0, len(jobs), func(j int) {
		if time.Now().After(deadline) {
			return
		}
		in := inputs[jobs[j].in]
		dir := filepath.Join(scratch, fmt.Sprintf("%s-%d", in.ID, jobs[j].cmd))
		if err := in.P.Write(dir); err != nil {
			core.Harness("cannot write project: %v", err)
		}
		if in.RawCfg != nil {
			os.WriteFile(filepath.Join(dir, "gleece.config.json"), []byte(*in.RawCfg), 0o644)
		}
		r := scen.RunCLI(dir, in.Cmds[jobs[j].cmd], horizon)
		if r.TimedOut { // a timeout is re-run before it counts
			r2 := scen.RunCLI(dir, in.Cmds[jobs[j].cmd], horizon*2)
			if !r2.TimedOut {
				r = r2
			}
		}
		results[j] = r
		os.RemoveAll(dir)
	})
	skipped := 0
	var walls []int
	for j, r := range results {
		if r == nil {
			skipped++
			continue
		}
		in := inputs[jobs[j].in]
		cmd := in.Cmds[jobs[j].cmd]
		cmdName := strings.Join(cmd[:min(2, len(cmd))], " ")
		if len(cmd) == 0 {
			cmdName = "(bare root command)"
		}
		walls = append(walls, int(r.WallMs))
		run.AddStates(1)
		run.AddTransitions(1)
		run.AddValidated(1)
		// features name the defect (family, command, crash site); the concrete input is in the case
		feat := map[string]string{"command": cmdName, "family": in.Feat["family"]}
		c := map[string]any{"id": in.ID, "features": in.Feat, "command": cmd, "files": in.P.Files, "config": in.P.Config}
		if in.RawCfg != nil {
			c["raw_config"] = *in.RawCfg
		}
		out := r.Output
		class := "exit0"
		switch {
		case r.TimedOut:
			class = "timeout"
			run.Report(core.Violation{Oracle: "terminates-within-horizon", Features: feat, What: fmt.Sprintf("`gleece %s` did not terminate within %d s (re-run with %d s as well)", cmdName, horizon, horizon*2), Case: c})
		case strings.Contains(out, "panic:") || strings.Contains(out, "goroutine 1 [") || strings.Contains(out, "runtime error:") || r.Exit == 2:
			class = "panic"
			feat["panic"] = panicSite(out)
			run.Report(core.Violation{Oracle: "never-panics", Features: feat, What: fmt.Sprintf("`gleece %s` crashed: %s", cmdName, panicLine(out)), Case: c, Observed: tailOf(out, 30)})
		case r.Exit == 0:
			missing := []string{}
			wantSpec := cmdName == "generate spec-and-routes" || cmdName == "generate spec" || cmdName == "(bare root command)"
			wantRoutes := cmdName == "generate spec-and-routes" || cmdName == "generate routes" || cmdName == "(bare root command)"
			specPath, routesPath := "dist/openapi.json", "dist/routes/gleece.routes.go"
			if oc, ok := in.P.Config["openapiGeneratorConfig"].(map[string]any); ok {
				if sg, ok := oc["specGeneratorConfig"].(map[string]any); ok {
					if s, ok := sg["outputPath"].(string); ok && s != "" {
						specPath = strings.TrimPrefix(s, "./")
					}
				}
			}
			if rc, ok := in.P.Config["routesConfig"].(map[string]any); ok {
				if s, ok := rc["outputPath"].(string); ok && s != "" {
					routesPath = strings.TrimPrefix(s, "./")
				}
			}
			if wantSpec && r.Files[specPath] == "" {
				missing = append(missing, "spec")
			}
			if wantRoutes && r.Files[routesPath] == "" {
				missing = append(missing, "routes")
			}
			if len(missing) > 0 && in.RawCfg == nil {
				class = "exit0-without-artifacts"
				feat["missing"] = strings.Join(missing, "+")
				run.Report(core.Violation{Oracle: "exit-zero-means-artifacts-written", Features: feat, What: fmt.Sprintf("`gleece %s` exited 0 but wrote no %s: %s", cmdName, strings.Join(missing, " and no "), tailOf(out, 3)), Case: c})
			}
		default:
			class = "exit-nonzero"
			if strings.TrimSpace(out) == "" {
				class = "silent-failure"
				run.Report(core.Violation{Oracle: "failure-carries-a-message", Features: feat, What: fmt.Sprintf("`gleece %s` exited %d without any message", cmdName, r.Exit), Case: c})
			}
		}
		run.Outcome(in.Feat["family"]+": "+class, 1)
	}
	if skipped > 0 {
		run.Cap(fmt.Sprintf("deadline reached: %d of %d CLI runs not executed", skipped, len(jobs)))
	}
	if id := replayPairID(replay); replay == "" || strings.HasPrefix(id, "y") || strings.HasPrefix(id, "z") {
		validatorPairs(run, scratch, tier, deadline, replayPairID(replay))
	}
	sort.Ints(walls)
	if len(walls) > 0 {
		run.Set("wall_ms_median", walls[len(walls)/2])
		run.Set("wall_ms_max", walls[len(walls)-1])
	}
	run.Set("inputs", len(inputs))
	run.Set("cli_runs", len(jobs)-skipped)
	if len(inputs) > 0 {
		run.Sample(map[string]any{"id": inputs[0].ID, "features": inputs[0].Feat})
		run.Sample(map[string]any{"id": inputs[len(inputs)-1].ID, "features": inputs[len(inputs)-1].Feat})
	}
	run.Bound = fmt.Sprintf("%d inputs: %d type shapes x %d usage sites; malformed annotation lines x positions; 18 validator rules x 10 argument forms x kinds x sites and every ordered pair of 46 (rule, argument) atoms on string/int/[]string fields and query parameters under both OpenAPI versions (packed, bisected on any non-zero exit); configuration mutations (truncations, documents of the wrong JSON kind, every section/field set to each JSON kind or deleted, hostile paths/templates); x commands {spec-and-routes, spec, routes, dump graph, bare root, spec as 3.1.0} where applicable", len(inputs), len(shapes()), len(sites))
	run.Rule = "state = one (input project/config, command); transition = one run of the real CLI binary in a fresh process; validated = runs whose exit status, output (panic traces), wall time and artifacts were judged"
	run.Assumptions = []string{"horizon 90 s (re-run with 180 s before a timeout counts); the median run takes well under 2 s", "a [FATAL] log line alone is not a failure"}
	os.RemoveAll(scratch)
	run.Finish()
}

func panicLine(out string) string {
	for _, l := range strings.Split(out, "\n") {
		if strings.Contains(l, "panic:") || strings.Contains(l, "runtime error:") {
			if len(l) > 220 {
				l = l[:220]
			}
			return strings.TrimSpace(l)
		}
	}
	return tailOf(out, 2)
}

// panicSite names the first gleece frame of the panic's stack trace (used to tell findings apart).
func panicSite(out string) string {
	lines := strings.Split(out, "\n")
	for i, l := range lines {
		if strings.HasPrefix(l, "github.com/gopher-fleece/gleece/v2/") && i > 0 {
			f := strings.TrimPrefix(l, "github.com/gopher-fleece/gleece/v2/")
			if j := strings.IndexByte(f, '('); j > 0 {
				f = f[:j]
			}
			if strings.Contains(f, "logger") {
				continue
			}
			return f
		}
	}
	return "?"
}

func tailOf(s string, n int) string {
	l := strings.Split(strings.TrimSpace(s), "\n")
	if len(l) > n {
		l = l[len(l)-n:]
	}
	out := strings.Join(l, " | ")
	if len(out) > 1500 {
		out = out[:1500]
	}
	return out
}
