// Package c15 decides C15 (route-conflict detection flags exactly the overlapping same-verb routes) by
// enumerating every ordered route list over a small template alphabet and comparing paths.FindConflicts
// on each of them with a literal transcription of the statement's overlap definition.
package c15

import (
	"fmt"
	"runtime"
	"strings"
	"sync"
	"sync/atomic"
	"time"

	"github.com/gopher-fleece/gleece/v2/core/metadata"
	"github.com/gopher-fleece/gleece/v2/core/validators/paths"

	"verif/internal/core"
)

type entry struct {
	Path string `json:"path"`
	Verb string `json:"verb"`
	segs []string
}

// refSegments is the reference normalisation: the non-empty segments of the template.
func refSegments(p string) []string {
	var out []string
	for _, s := range strings.Split(p, "/") {
		if s != "" {
			out = append(out, s)
		}
	}
	return out
}

func isParam(s string) bool { return len(s) >= 2 && s[0] == '{' && s[len(s)-1] == '}' }

// refOverlap is the statement, literally: equal segment counts and, position by position, equal literals
// or at least one parameter.
func refOverlap(a, b []string) bool {
	if len(a) != len(b) {
		return false
	}
	for i := range a {
		if a[i] == b[i] || isParam(a[i]) || isParam(b[i]) {
			continue
		}
		return false
	}
	return true
}

func templates(segAlpha []string, depth int) []string {
	out := []string{"/"}
	level := []string{""}
	for d := 1; d <= depth; d++ {
		var next []string
		for _, p := range level {
			for _, s := range segAlpha {
				next = append(next, p+"/"+s)
			}
		}
		out = append(out, next...)
		level = next
	}
	return out
}

func mkAlphabet(tmpls []string, verbs []string) []entry {
	var out []entry
	for _, t := range tmpls {
		for _, v := range verbs {
			out = append(out, entry{Path: t, Verb: v, segs: refSegments(t)})
		}
	}
	return out
}

// spellings of one canonical template: the raw forms a user may write.
func spellings(t string) []string {
	if t == "/" {
		return []string{"/", "", "//"}
	}
	body := strings.TrimPrefix(t, "/")
	return []string{t, body, t + "/", "/" + strings.ReplaceAll(t, "/", "//")}
}

type checker struct {
	run   *core.Run
	alpha []entry
	ov    [][]bool // same verb and overlapping, by alphabet index
}

func newChecker(run *core.Run, alpha []entry) *checker {
	c := &checker{run: run, alpha: alpha}
	c.ov = make([][]bool, len(alpha))
	for i := range alpha {
		c.ov[i] = make([]bool, len(alpha))
		for j := range alpha {
			c.ov[i][j] = alpha[i].Verb == alpha[j].Verb && refOverlap(alpha[i].segs, alpha[j].segs)
		}
	}
	return c
}

type worker struct {
	c       *checker
	metas   []*metadata.ReceiverMeta
	pos     map[*metadata.ReceiverMeta]int
	entries []paths.RouteEntry
	lists   int64
	confl   int64
	outc    map[string]int64
}

func (c *checker) newWorker(maxLen int) *worker {
	w := &worker{c: c, pos: map[*metadata.ReceiverMeta]int{}, outc: map[string]int64{}}
	for i := 0; i < maxLen; i++ {
		m := &metadata.ReceiverMeta{}
		m.Name = fmt.Sprintf("E%d", i)
		w.metas = append(w.metas, m)
		w.pos[m] = i
	}
	w.entries = make([]paths.RouteEntry, 0, maxLen)
	return w
}

// checkList runs the real FindConflicts on the list (alphabet indices) and compares with the model.
func (w *worker) checkList(idx []int) {
	c := w.c
	w.entries = w.entries[:0]
	for i, a := range idx {
		w.entries = append(w.entries, paths.RouteEntry{Path: c.alpha[a].Path, Method: c.alpha[a].Verb,
			Meta: paths.RouteEntryMeta{Receiver: w.metas[i]}})
	}
	conflicts := paths.FindConflicts(w.entries)
	w.lists++
	w.confl += int64(len(conflicts))
	var named uint32
	for _, cf := range conflicts {
		pa, oka := w.pos[cf.A.Meta.Receiver]
		pb, okb := w.pos[cf.B.Meta.Receiver]
		if !oka || !okb || pa >= len(idx) || pb >= len(idx) {
			w.fail(idx, "soundness/invented-entry", fmt.Sprintf("conflict %q vs %q names an entry that is not in the list", cf.A.Path, cf.B.Path), conflicts)
			continue
		}
		ea, eb := c.alpha[idx[pa]], c.alpha[idx[pb]]
		if cf.A.Path != ea.Path || cf.A.Method != ea.Verb || cf.B.Path != eb.Path || cf.B.Method != eb.Verb {
			w.fail(idx, "soundness/entry-altered", "conflict carries a path/verb different from the named list entry", conflicts)
		}
		if pa == pb {
			w.fail(idx, "soundness/self-conflict", fmt.Sprintf("entry %d (%s %s) reported as conflicting with itself", pa, ea.Verb, ea.Path), conflicts)
			continue
		}
		if ea.Verb != eb.Verb {
			w.fail(idx, "soundness/cross-verb", fmt.Sprintf("%s %s vs %s %s", ea.Verb, ea.Path, eb.Verb, eb.Path), conflicts)
			continue
		}
		if !refOverlap(ea.segs, eb.segs) {
			w.fail(idx, "soundness/no-overlap", fmt.Sprintf("%s %s vs %s %s cannot match a common path", ea.Verb, ea.Path, eb.Verb, eb.Path), conflicts)
			continue
		}
		named |= 1<<uint(pa) | 1<<uint(pb)
	}
	var want uint32
	for i := range idx {
		for j := range idx {
			if i != j && c.ov[idx[i]][idx[j]] {
				want |= 1 << uint(i)
				break
			}
		}
	}
	if missing := want &^ named; missing != 0 {
		for i := range idx {
			if missing&(1<<uint(i)) != 0 {
				e := c.alpha[idx[i]]
				w.failFeat(idx, "completeness/unflagged-entry", map[string]string{"shape": w.shape(idx, i)},
					fmt.Sprintf("entry %d (%s %s) overlaps another same-verb entry but is named in no conflict", i, e.Verb, e.Path), conflicts)
			}
		}
	}
	if extra := named &^ want; extra != 0 {
		w.fail(idx, "soundness/flagged-without-overlap", "an entry with no overlapping same-verb partner was flagged", conflicts)
	}
	w.outc[fmt.Sprintf("len=%d flagged=%d conflicts=%d", len(idx), popcount(named), len(conflicts))]++
}

// shape classifies an unflagged entry for known-finding matching: how many entries identical to it
// (same raw path and verb) precede it in the list.
func (w *worker) shape(idx []int, i int) string {
	same := 0
	for j := 0; j < i; j++ {
		if w.c.alpha[idx[j]].Path == w.c.alpha[idx[i]].Path && w.c.alpha[idx[j]].Verb == w.c.alpha[idx[i]].Verb {
			same++
		}
	}
	if same >= 2 {
		return "third-or-later-identical-entry"
	}
	return fmt.Sprintf("identical-predecessors=%d", same)
}

func popcount(x uint32) int {
	n := 0
	for ; x != 0; x &= x - 1 {
		n++
	}
	return n
}

func (w *worker) caseOf(idx []int) []entry {
	var l []entry
	for _, a := range idx {
		l = append(l, w.c.alpha[a])
	}
	return l
}

func (w *worker) fail(idx []int, oracle, what string, conflicts []paths.Conflict) {
	w.failFeat(idx, oracle, map[string]string{}, what, conflicts)
}

func (w *worker) failFeat(idx []int, oracle string, feat map[string]string, what string, conflicts []paths.Conflict) {
	var obs []string
	for _, cf := range conflicts {
		obs = append(obs, fmt.Sprintf("%s(%s %s) <> %s(%s %s): %s", nameOf(cf.A), cf.A.Method, cf.A.Path, nameOf(cf.B), cf.B.Method, cf.B.Path, cf.Reason))
	}
	feat["len"] = fmt.Sprint(len(idx))
	w.c.run.Report(core.Violation{Oracle: oracle, Features: feat, What: what, Case: w.caseOf(idx), Observed: obs})
}

func nameOf(e paths.RouteEntry) string {
	if e.Meta.Receiver == nil {
		return "?"
	}
	return e.Meta.Receiver.Name
}

// enumerate explores every ordered list of exactly n entries, sharded over the first element.
func (c *checker) enumerate(n int, deadline time.Time, label string) bool {
	var wg sync.WaitGroup
	var next int64 = -1
	var expired atomic.Bool
	N := len(c.alpha)
	var mu sync.Mutex
	var lists, confl int64
	nw := runtime.NumCPU()
	for k := 0; k < nw; k++ {
		wg.Add(1)
		go func() {
			defer wg.Done()
			w := c.newWorker(n)
			idx := make([]int, n)
			for {
				first := int(atomic.AddInt64(&next, 1))
				if first >= N || expired.Load() {
					break
				}
				idx[0] = first
				var rec func(d int)
				rec = func(d int) {
					if d == n {
						w.checkList(idx)
						return
					}
					for a := 0; a < N; a++ {
						idx[d] = a
						rec(d + 1)
					}
				}
				rec(1)
				if time.Now().After(deadline) {
					expired.Store(true)
				}
			}
			mu.Lock()
			lists += w.lists
			confl += w.confl
			for k, v := range w.outc {
				c.run.Outcome(k, v)
			}
			mu.Unlock()
		}()
	}
	wg.Wait()
	c.run.AddStates(lists)
	c.run.AddTransitions(lists)
	c.run.AddValidated(lists)
	c.run.Add("conflicts_reported_total", confl)
	if expired.Load() {
		c.run.Cap(fmt.Sprintf("%s: deadline reached inside length-%d enumeration", label, n))
		return false
	}
	return true
}

func Main(tier string, replay string) {
	run := core.NewRun("C15", tier)
	verbs := []string{"GET", "POST"}
	segs := []string{"a", "b", "{x}", "{y}"}
	if replay != "" {
		replayCase(run, replay)
		return
	}
	deadline := core.Deadline(tier, 4*time.Minute, 40*time.Minute)
	big := newChecker(run, mkAlphabet(templates(segs, 3), verbs)) // 85 templates x 2 verbs = 170
	mid := newChecker(run, mkAlphabet(templates(segs, 2), verbs)) // 21 x 2 = 42
	var sp []string
	for _, t := range templates([]string{"a", "{x}"}, 2) {
		sp = append(sp, spellings(t)...)
	}
	spell := newChecker(run, mkAlphabet(sp, []string{"GET"}))
	bounds := []string{}
	done := func(ok bool, s string) {
		if ok {
			bounds = append(bounds, s)
		}
	}
	for n := 1; n <= 3; n++ {
		done(big.enumerate(n, deadline, "170-entry alphabet"), fmt.Sprintf("all ordered lists of length %d over %d entries (segments a,b,{x},{y}; depth<=3; GET/POST)", n, len(big.alpha)))
	}
	done(spell.enumerate(2, deadline, "spelling alphabet"), fmt.Sprintf("all ordered pairs over %d raw spellings (leading/trailing/doubled slash, empty)", len(spell.alpha)))
	if tier == "thorough" {
		done(spell.enumerate(3, deadline, "spelling alphabet"), fmt.Sprintf("all ordered triples over %d raw spellings", len(spell.alpha)))
		done(mid.enumerate(4, deadline, "42-entry alphabet"), fmt.Sprintf("all ordered lists of length 4 over %d entries (depth<=2)", len(mid.alpha)))
		small := newChecker(run, mkAlphabet([]string{"/", "/a", "/{x}", "/a/b", "/a/{y}", "/{x}/b", "/{x}/{y}"}, []string{"GET"}))
		small.alpha = append(small.alpha, mkAlphabet([]string{"/a", "/{x}", "/{x}/{y}"}, []string{"POST"})...)
		small = newChecker(run, small.alpha)
		done(small.enumerate(5, deadline, "10-entry alphabet"), "all ordered lists of length 5 over 10 entries")
		done(small.enumerate(6, deadline, "10-entry alphabet"), "all ordered lists of length 6 over 10 entries")
	}
	validatorLevel(run, tier)
	bounds = append(bounds, "validator level: 3 prefix pairs x 4x4 method routes x same/different verb x optional third method, each as a generated project through the real ApiValidator")
	run.Bound = strings.Join(bounds, "; ")
	run.Rule = "state = one ordered route list (every entry has its own identity); transition = one paths.FindConflicts call on it; validated = lists whose conflict set was compared with the statement's overlap relation (soundness, completeness, hence order-independence of the flagged set)"
	run.Sample(map[string]any{"list": []entry{{Path: "/a/{x}", Verb: "GET"}, {Path: "/{y}/b", Verb: "GET"}, {Path: "/a/b", Verb: "POST"}}, "expected_flagged": []int{0, 1}})
	run.Sample(map[string]any{"list": []entry{{Path: "a//{x}/", Verb: "GET"}, {Path: "/a/{x}", Verb: "GET"}}, "expected_flagged": []int{0, 1}})
	run.Assumptions = []string{"normalisation of a template = its non-empty '/'-separated segments", "Go toolchain"}
	run.Finish()
}

func replayCase(run *core.Run, path string) {
	_, v := core.LoadReplay(path)
	raw, ok := v.Case.([]any)
	if !ok {
		core.Harness("replay case is not a list")
	}
	var alpha []entry
	var idx []int
	for i, e := range raw {
		m := e.(map[string]any)
		p, _ := m["path"].(string)
		vb, _ := m["verb"].(string)
		alpha = append(alpha, entry{Path: p, Verb: vb, segs: refSegments(p)})
		idx = append(idx, i)
	}
	c := newChecker(run, alpha)
	w := c.newWorker(len(idx))
	w.checkList(idx)
	run.AddStates(1)
	run.AddTransitions(1)
	run.AddValidated(1)
	run.Sample(alpha)
	run.Bound = "replay of one list"
	run.Finish()
}
