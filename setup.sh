#!/bin/bash
# Builds the checker and warms the Go build cache, offline, from files on disk only.
cd "$(dirname "$0")" || exit 2
export GOFLAGS=-mod=mod GOPROXY=off
unset GOSUMDB
mkdir -p bin evidence
cp /repo/go.sum go.sum
go build -tags verif -o bin/vcheck ./cmd/vcheck || exit 1
(cd /repo && go build -tags verif -o /verif/bin/gleece . && go build -o /verif/bin/gleece-plain .) || exit 1
echo setup ok
