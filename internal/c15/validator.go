package c15

import (
	"fmt"
	"os"
	"regexp"
	"sort"
	"strings"

	"verif/internal/core"
	"verif/internal/fam"
	"verif/internal/scen"
)

var nameRe = regexp.MustCompile(`\{([a-z]+)\}`)

// validatorLevel checks the mapping "offending entry -> route-conflict warning on its method" on generated
// projects: every combination of two controllers (same or different prefix) with two methods each over a small
// route/verb alphabet goes through the real ApiValidator; the methods carrying a route-conflict warning must be
// exactly those whose full route (controller route + method route) overlaps another same-verb route.
func validatorLevel(run *core.Run, tier string) {
	scratch := scen.MkScratch("c15")
	defer os.RemoveAll(scratch)
	prefixes := [][2]string{{"/§/p", "/§/p"}, {"/§/p", "/§/q"}, {"/§/{t}", "/§/p"}, {"/§/p/", "/§/p"}}
	routes := []string{"/x", "/{id}", "/x/{id}", "/{id}/x", "x"}
	verbs := [][2]string{{"GET", "GET"}, {"GET", "POST"}}
	var cases []scen.Case
	type rt struct{ name, verb, full string }
	expect := map[string][]rt{}
	n := 0
	mk := func(id, name, verb, prefix, route string) scen.Method {
		m := scen.Method{Name: name, Verb: verb, Route: scen.S(route)}
		seen := map[string]bool{}
		for _, mm := range nameRe.FindAllStringSubmatch(prefix+route, -1) {
			if !seen[mm[1]] {
				seen[mm[1]] = true
				m.Params = append(m.Params, scen.Param{Name: mm[1], Type: "string", In: "Path"})
			}
		}
		return m
	}
	for _, pf := range prefixes {
		for _, r1 := range routes {
			for _, r2 := range routes {
				for _, vb := range verbs {
					for _, third := range []bool{false, true} {
						for _, noisy := range []string{"", "other-warning", "hidden"} {
							id := fmt.Sprintf("w%04d", n)
							n++
							p1, p2 := strings.ReplaceAll(pf[0], "§", id), strings.ReplaceAll(pf[1], "§", id)
							c1 := scen.Controller{Name: "A" + id, Pkg: id, Prefix: scen.S(p1), Tag: scen.S("T" + id)}
							c2 := scen.Controller{Name: "B" + id, Pkg: id, Prefix: scen.S(p2), Tag: scen.S("U" + id)}
							c1.Methods = []scen.Method{mk(id, "One"+id, vb[0], p1, r1)}
							c2.Methods = []scen.Method{mk(id, "Two"+id, vb[1], p2, r2)}
							switch noisy {
							case "other-warning":
								// the second method already carries a warning of its own (a status code outside the registry)
								c2.Methods[0].Response = "641 unusual"
							case "hidden":
								// hidden from the document, but still registered with the router: its overlaps are as real
								c2.Methods[0].Hidden = true
							}
							rs := []rt{{"One" + id, vb[0], p1 + r1}, {"Two" + id, vb[1], p2 + r2}}
							if third {
								c2.Methods = append(c2.Methods, mk(id, "Three"+id, vb[0], p2, r1))
								rs = append(rs, rt{"Three" + id, vb[0], p2 + r1})
							}
							cases = append(cases, scen.Case{ID: id, Unit: scen.Unit{Controllers: []scen.Controller{c1, c2}},
								Features: map[string]string{"level": "validator", "prefixes": pf[0] + "|" + pf[1], "routes": r1 + "|" + r2, "verbs": vb[0] + "|" + vb[1], "third": fmt.Sprint(third), "second-method": noisy},
								Desc:     []scen.Controller{c1, c2}})
							expect[id] = rs
						}
					}
				}
			}
		}
	}
	f := fam.Family{Name: "conflicts", Cases: cases, BaseCfg: fam.DefaultCfg, PackSize: 48}
	rn := fam.RunOpt(f, scratch, nil, cases, nil, true, func(v fam.View) {
		if v.Hard != "" {
			run.Outcome("validator-level: hard failure", 1)
			return
		}
		rs := expect[v.Case.ID]
		want := map[string]bool{}
		for i, a := range rs {
			for j, b := range rs {
				if i != j && a.verb == b.verb && refOverlap(refSegments(a.full), refSegments(b.full)) {
					want[a.name] = true
				}
			}
		}
		got := map[string]bool{}
		for _, d := range v.Diags {
			if d.Code == "route-conflict" {
				got[d.Entity[strings.LastIndex(d.Entity, "Receiver ")+len("Receiver "):]] = true
			}
		}
		var w, g []string
		for k := range want {
			w = append(w, k)
		}
		for k := range got {
			g = append(g, k)
		}
		sort.Strings(w)
		sort.Strings(g)
		run.AddValidated(1)
		run.Outcome(fmt.Sprintf("validator-level: %d of %d methods warned", len(g), len(rs)), 1)
		if strings.Join(w, ",") != strings.Join(g, ",") {
			run.Report(core.Violation{Oracle: "validator/warned-methods-are-the-overlapping-ones", Features: v.Feat(),
				What: fmt.Sprintf("methods with a route-conflict warning: %v; methods whose full route overlaps another same-verb route: %v (routes %v)", g, w, rs), Case: v.Case})
		}
	})
	run.AddStates(int64(len(cases)))
	run.AddTransitions(rn.Projects.Load())
	run.Set("validator_level_projects", len(cases))
}
