// Package c09 decides C09 (every accepted project yields a routes file that is compilable Go) by generating the
// routes file for every scenario of the signature and type families plus an adversarial identifier family, for
// all five engines and for combinations of the experimental flags, and handing every generated file to gofmt's
// formatter and to the real Go compiler together with the user's controller and authorization packages.
package c09

import (
	"fmt"
	"go/format"
	"os"
	"regexp"
	"sort"
	"strings"
	"time"

	"verif/internal/c05"
	"verif/internal/core"
	"verif/internal/fam"
	"verif/internal/rast"
	"verif/internal/rt"
	"verif/internal/scen"
)

func adversarial() []scen.Case {
	var cases []scen.Case
	n := 0
	add := func(name string, u func(id string) scen.Unit, feat map[string]string) {
		id := fmt.Sprintf("n%04d", n)
		n++
		f := map[string]string{"family": "identifiers", "case": name}
		for k, v := range feat {
			f[k] = v
		}
		unit := u(id)
		cases = append(cases, scen.Case{ID: id, Unit: unit, Features: f, Desc: map[string]any{"case": name, "controllers": unit.Controllers, "decls": unit.Decls}})
	}
	names := []string{"id", "userId", "user_id", "ID", "value", "controller", "ginCtx", "echoCtx", "fiberCtx", "req", "w", "conversionErr", "opError", "authErr", "statusCode", "err", "ctx",
		"fmt", "strconv", "json", "http", "runtime", "int", "string", "validatorInstance", "emptyErr", "engine", "validationError", "fieldName", "len", "nil2", "Param0p"}
	for _, nm := range names {
		nm := nm
		for _, loc := range []string{"Query", "Body"} {
			loc := loc
			add("param-name "+nm+" in "+loc, func(id string) scen.Unit {
				m := scen.Method{Name: "Op" + id, Verb: "POST", Route: scen.S("/op"), Ret: "string"}
				if loc == "Query" {
					m.Params = []scen.Param{{Name: nm, Type: "int", In: "Query"}, {Name: "other", Type: "*bool", In: "Header"}}
				} else {
					m.Params = []scen.Param{{Name: nm, Type: "B" + id, In: "Body"}}
				}
				ctl := scen.Controller{Name: "C" + id, Pkg: id, Prefix: scen.S("/" + id), Tag: scen.S("T" + id), Methods: []scen.Method{m}}
				return scen.Unit{Controllers: []scen.Controller{ctl}, Decls: map[string]string{id: "type B" + id + " struct {\n\tA int `json:\"a\"`\n}\n"}}
			}, map[string]string{"name": nm, "in": loc})
		}
	}
	// type and package names that collide with what the generated file declares or imports
	for _, tn := range []string{"Context", "SecurityCheckList", "Rfc7807Error", "Engine", "Validate"} {
		tn := tn
		add("type named "+tn, func(id string) scen.Unit {
			m := scen.Method{Name: "Op" + id, Verb: "POST", Route: scen.S("/op"), Ret: tn, Params: []scen.Param{{Name: "b", Type: tn, In: "Body"}}}
			ctl := scen.Controller{Name: "C" + id, Pkg: id, Prefix: scen.S("/" + id), Tag: scen.S("T" + id), Methods: []scen.Method{m}}
			return scen.Unit{Controllers: []scen.Controller{ctl}, Decls: map[string]string{id: "type " + tn + " struct {\n\tA int `json:\"a\"`\n}\n"}}
		}, map[string]string{"type": tn})
	}
	for _, pn := range []string{"json", "http", "fmt", "strings", "runtime", "gin", "validator", "v2", "routes"} {
		pn := pn
		add("controller package named "+pn, func(id string) scen.Unit {
			m := scen.Method{Name: "Op" + id, Verb: "GET", Route: scen.S("/op"), Ret: "T" + id}
			ctl := scen.Controller{Name: "C" + id, Pkg: id + "/" + pn, Prefix: scen.S("/" + id), Tag: scen.S("T" + id), Methods: []scen.Method{m}}
			return scen.Unit{Controllers: []scen.Controller{ctl}, Decls: map[string]string{id + "/" + pn: "type T" + id + " struct {\n\tA int `json:\"a\"`\n}\n"}}
		}, map[string]string{"package": pn})
	}
	// annotation values in an unusual letter case: either refused, or generated into code that compiles
	for _, verb := range []string{"get", "Post", "dELETE", "Get"} {
		verb := verb
		add("verb written as "+verb, func(id string) scen.Unit {
			m := scen.Method{Name: "Op" + id, Verb: verb, Route: scen.S("/op"), Ret: "string"}
			ctl := scen.Controller{Name: "C" + id, Pkg: id, Prefix: scen.S("/" + id), Tag: scen.S("T" + id), Methods: []scen.Method{m}}
			return scen.Unit{Controllers: []scen.Controller{ctl}}
		}, map[string]string{"verb": verb})
	}
	add("same controller name in two packages", func(id string) scen.Unit {
		mk := func(pkg, route string) scen.Controller {
			return scen.Controller{Name: "Twin" + id, Pkg: id + "/" + pkg, Prefix: scen.S("/" + id + "/" + pkg), Tag: scen.S("T" + id + pkg),
				Methods: []scen.Method{{Name: "Op" + pkg + id, Verb: "GET", Route: scen.S(route), Ret: "string"}}}
		}
		return scen.Unit{Controllers: []scen.Controller{mk("left", "/l"), mk("right", "/r")}}
	}, map[string]string{"layout": "twin-controllers"})
	add("types with the same name from two packages in one signature", func(id string) scen.Unit {
		m := scen.Method{Name: "Op" + id, Verb: "POST", Route: scen.S("/op"), Ret: "mb.Item" + id, Params: []scen.Param{{Name: "b", Type: "ma.Item" + id, In: "Body"}}}
		ctl := scen.Controller{Name: "C" + id, Pkg: id, Prefix: scen.S("/" + id), Tag: scen.S("T" + id), Methods: []scen.Method{m}}
		return scen.Unit{Controllers: []scen.Controller{ctl}, Decls: map[string]string{id + "/ma": "type Item" + id + " struct {\n\tA int `json:\"a\"`\n}\n", id + "/mb": "type Item" + id + " struct {\n\tB int `json:\"b\"`\n}\n"},
			Imports: map[string][]string{id: {"ma " + scen.ModulePath + "/" + id + "/ma", "mb " + scen.ModulePath + "/" + id + "/mb"}}}
	}, map[string]string{"layout": "same-type-name-two-packages"})
	add("enum and struct from another package", func(id string) scen.Unit {
		m := scen.Method{Name: "Op" + id, Verb: "GET", Route: scen.S("/op/{k}"), Ret: "[]far.Res" + id, Params: []scen.Param{{Name: "k", Type: "far.Kind" + id, In: "Path"}, {Name: "q", Type: "[]far.Kind" + id, In: "Query"}}}
		ctl := scen.Controller{Name: "C" + id, Pkg: id, Prefix: scen.S("/" + id), Tag: scen.S("T" + id), Methods: []scen.Method{m}}
		return scen.Unit{Controllers: []scen.Controller{ctl}, Decls: map[string]string{id + "/far": "type Kind" + id + " string\n\nconst (\n\tKind" + id + "A Kind" + id + " = \"a\"\n)\n\ntype Res" + id + " struct {\n\tK Kind" + id + " `json:\"k\"`\n}\n"},
			Imports: map[string][]string{id: {"far " + scen.ModulePath + "/" + id + "/far"}}}
	}, map[string]string{"layout": "cross-package-enum"})
	return cases
}

var errLoc = regexp.MustCompile(`routes/(\w+)/gleece\.routes\.go:(\d+):\d+: (.*)`)

func Main(tier, replay string) {
	run := core.NewRun("C09", tier)
	scratch := scen.MkScratch("c09")
	defer os.RemoveAll(scratch)
	deadline := core.Deadline(tier, 14*time.Minute, 60*time.Minute)
	sig, _ := fam.Signature("quick")
	typ, _, _ := fam.Types("quick")
	var cases []scen.Case
	for _, c := range sig.Cases {
		if tier == "thorough" || core.Pick(c.ID, 4) || c.Features["family"] == "sig-return" || c.Features["family"] == "sig-grouped" || c.Features["family"] == "sig-3param" || (c.Features["alias"] == "wn" && c.Features["validate"] == "") {
			cases = append(cases, c)
		}
	}
	for _, c := range typ.Cases {
		if c.Features["mutual"] == "true" {
			continue
		}
		if tier == "thorough" || core.Pick(c.ID, 3) || c.Features["family"] != "type-graph" {
			cases = append(cases, c)
		}
	}
	// every numeric width, the slices in query and the several-parameter signatures of the binding space (C05)
	bc, _, _ := c05.Space("quick")
	for _, c := range bc {
		if in := c.Features["in"]; c.Features["alias"] == "" && (tier == "thorough" || c.Features["validate"] == "" && (in == "Query" || in == "several" || in == "Body" || c.Features["ptr"] == "false")) {
			c.Unit.Imports = map[string][]string{c.Unit.Controllers[0].Pkg: {"context"}} // some of these take a context parameter
			cases = append(cases, c)
		}
	}
	cases = append(cases, adversarial()...)
	if replay != "" {
		_, v := core.LoadReplay(replay)
		id, _ := v.Case.(map[string]any)["id"].(string)
		var sel []scen.Case
		for _, c := range cases {
			if c.ID == id {
				sel = append(sel, c)
			}
		}
		if len(sel) == 0 {
			core.Harness("replay: scenario %q not in the enumeration", id)
		}
		cases = sel
	}
	flagSets := []rt.Flags{{}, {EnumVal: true, TopEnum: true, RespVal: true}}
	if tier == "thorough" {
		flagSets = nil
		for i := 0; i < 8; i++ {
			flagSets = append(flagSets, rt.Flags{EnumVal: i&1 != 0, TopEnum: i&2 != 0, RespVal: i&4 != 0})
		}
	}
	identity := func(c scen.Case) scen.Unit { return c.Unit }
	files, compiled, rejected := 0, 0, 0
	for _, fl := range flagSets {
		flName := fmt.Sprintf("enumValidator=%v topLevelEnum=%v responseValidation=%v", fl.EnumVal, fl.TopEnum, fl.RespVal)
		crs := rt.RunCases(scratch, cases, 40, 6, identity, nil, nil, fl, deadline)
		checkedRun := map[*rt.Run]bool{}
		for _, cr := range crs {
			c := cr.Case
			if cr.Run == nil {
				run.Cap("deadline reached: scenario " + c.ID + " not run under " + flName)
				continue
			}
			feat := func(extra ...string) map[string]string {
				f := map[string]string{"flags": flName}
				for k, v := range c.Features {
					f[k] = v
				}
				for i := 0; i+1 < len(extra); i += 2 {
					f[extra[i]] = extra[i+1]
				}
				return f
			}
			run.AddStates(1)
			if !cr.Run.Worker.Accepted() || len(cr.Run.Routes) < len(rt.Engines) {
				// rejected with an error rather than producing a file: allowed, provided no file was produced for that engine
				rejected++
				reason := cr.Run.Worker.FailureSummary()
				for _, e := range rt.Engines {
					if a, ok := cr.Run.Worker.Routes[e]; ok && (a.Err != "" || a.Panic != "") {
						reason = e + ": " + firstLines(a.Err+a.Panic, 1)
						if a.Panic != "" {
							run.Report(core.Violation{Oracle: "route-generation-does-not-panic", Features: feat("engine", e), What: "routes generation panicked: " + firstLines(a.Panic, 2), Case: c})
						}
					}
				}
				run.Outcome("rejected: "+strings.SplitN(reason, ":", 2)[0]+" ["+c.Features["family"]+c.Features["kind"]+"/"+c.Features["in"]+"]", 1)
				continue
			}
			if !checkedRun[cr.Run] {
				checkedRun[cr.Run] = true
				for _, e := range rt.Engines {
					src := cr.Run.Routes[e]
					files++
					run.AddTransitions(1)
					run.AddValidated(1)
					rf, err := rast.Parse(src)
					if err != nil {
						run.Report(core.Violation{Oracle: "routes-file-is-valid-go-syntax", Features: feat("engine", e), What: e + ": " + err.Error(), Case: c})
						continue
					}
					if rf.Package != "routes" {
						run.Report(core.Violation{Oracle: "routes-file-in-configured-package", Features: feat("engine", e), What: e + ": package " + rf.Package, Case: c})
					}
					if formatted, err := format.Source([]byte(src)); err != nil || string(formatted) != src {
						kind := "other"
						if os.Getenv("VERIF_DEBUG") != "" {
							os.WriteFile("/dev/shm/c09-src-"+e+".go", []byte(src), 0o644)
							os.WriteFile("/dev/shm/c09-fmt-"+e+".go", formatted, 0o644)
						}
						if err == nil && sameLinesModuloBlankAndOrder(string(formatted), src) {
							kind = "only-blank-lines-collapsed"
						}
						run.Report(core.Violation{Oracle: "routes-file-is-gofmt-formatted", Features: map[string]string{"engine": e, "difference": kind}, What: e + ": the written file is not what gofmt would produce: " + firstDiff(src, string(formatted)), Case: c})
					}
				}
			}
			if cr.Run.BuildErr != "" {
				if cr.Interaction {
					if cr.Group[0] == c.ID { // report the group once
						run.Report(core.Violation{Oracle: "generated-routes-compile", Features: map[string]string{"flags": flName, "interaction": "several-scenarios-together", "error": classify(cr.Run.BuildErr)},
							What: fmt.Sprintf("a project made of %d scenarios (%v...) yields routes files that do not compile although each half of it compiles: %s", len(cr.Group), cr.Group[:min(3, len(cr.Group))], firstLines(cr.Run.BuildErr, 3)), Case: c})
					}
					continue
				}
				if !cr.Solo {
					continue
				}
				engines := map[string]string{}
				for _, m := range errLoc.FindAllStringSubmatch(cr.Run.BuildErr, -1) {
					if _, ok := engines[m[1]]; !ok {
						engines[m[1]] = m[3]
					}
				}
				if len(engines) == 0 {
					run.Report(core.Violation{Oracle: "generated-routes-compile", Features: feat("engine", "?"), What: "go build failed: " + firstLines(cr.Run.BuildErr, 4), Case: c})
				}
				for e, msg := range engines {
					run.Report(core.Violation{Oracle: "generated-routes-compile", Features: feat("engine", e, "error", classify(msg)), What: fmt.Sprintf("the %s routes file was written but does not compile: %s", e, msg), Case: c})
				}
				continue
			}
			compiled++
			run.Outcome("compiled under "+flName, 1)
		}
	}
	// ---- overwrite histories through the real CLI: the file at routesConfig.outputPath after any sequence of runs --
	if replay == "" {
		var pick []scen.Case
		seenKind := map[string]bool{}
		for _, c := range sig.Cases {
			if k := c.Features["kind"]; c.Features["family"] == "sig-1param" && c.Features["validate"] == "" && c.Features["alias"] == "" && c.Features["ptr"] == "false" && !seenKind[k] && len(pick) < 8 {
				seenKind[k] = true
				pick = append(pick, c)
			}
		}
		rnc := &scen.Runner{Scratch: scratch, BaseCfg: fam.DefaultCfg}
		p := rnc.BuildProject(pick)
		all, _ := p.Config["commonConfig"].(map[string]any)["controllerGlobs"].([]string)
		mkCfg := func(globs []string, engine string) map[string]any {
			c := scen.CloneConfig(p.Config)
			scen.Set(c, "commonConfig.controllerGlobs", globs)
			scen.Set(c, "routesConfig.engine", engine)
			return c
		}
		alphabet := []scen.OWStep{
			{Name: "all-controllers/gin", Config: mkCfg(all, "gin"), Args: []string{"generate", "routes"}},
			{Name: "one-controller/gin", Config: mkCfg(all[:1], "gin"), Args: []string{"generate", "routes"}},
			{Name: "all-controllers/chi", Config: mkCfg(all, "chi"), Args: []string{"generate", "routes"}},
			{Name: "one-controller/fiber/spec-and-routes", Config: mkCfg(all[:1], "fiber"), Args: []string{"generate", "spec-and-routes"}},
		}
		const routesPath = "dist/routes/gleece.routes.go"
		initials := []scen.OWInitial{{Name: "no file"}, {Name: "a longer stale file", Files: map[string]string{routesPath: "package routes\n\n" + strings.Repeat("// stale\n", 40000)}},
			{Name: "a shorter stale file", Files: map[string]string{routesPath: "package routes\n"}}}
		depth := 2
		if tier == "thorough" {
			depth = 3
		}
		obs := scen.RunOverwriteHistories(scratch, p, alphabet, initials, depth, []string{routesPath})
		for _, ob := range obs {
			run.AddStates(1)
			run.AddTransitions(int64(len(ob.Steps)))
			run.AddValidated(1)
			got, want := ob.Files[routesPath], ob.Fresh[routesPath]
			feat := map[string]string{"family": "overwrite-history", "initial": ob.Initial, "last-step": ob.Steps[len(ob.Steps)-1], "history-length": fmt.Sprint(len(ob.Steps))}
			cs := map[string]any{"id": "overwrite-history", "initial": ob.Initial, "steps": ob.Steps, "exit": ob.Exit}
			switch {
			case ob.Exit[len(ob.Exit)-1] != 0 || want == "":
				run.Report(core.Violation{Oracle: "accepted-project-writes-its-routes-file", Features: feat, What: fmt.Sprintf("history %v from %q: the last command exited %d (fresh-tree file empty=%v): %s", ob.Steps, ob.Initial, ob.Exit[len(ob.Exit)-1], want == "", firstLines(ob.Output, 3)), Case: cs})
			case got != want:
				what := fmt.Sprintf("history %v from %q: the file at outputPath (%d bytes) differs from what the same command writes into an empty tree (%d bytes)", ob.Steps, ob.Initial, len(got), len(want))
				if _, err := rast.Parse(got); err != nil {
					what += "; it is not valid Go: " + err.Error()
				}
				run.Report(core.Violation{Oracle: "file-at-output-path-is-what-this-run-generates", Features: feat, What: what, Case: cs})
			}
			run.Outcome("overwrite-history: "+ob.Initial+" -> routes file as a fresh run writes it="+fmt.Sprint(got == want), 1)
		}
		run.Set("overwrite_histories", len(obs))
	}
	run.Set("routes_files_checked", files)
	run.Set("scenario_runs_compiled_on_all_engines", compiled)
	run.Set("scenario_runs_rejected", rejected)
	run.Sample(cases[0])
	run.Sample(cases[len(cases)-1])
	run.Bound = fmt.Sprintf("%d scenarios (signature, type and binding-space families, %d adversarial identifier/package-name/layout cases) x 5 engines x %d flag sets (validateTopLevelOnlyEnum, generateEnumValidator, validateResponsePayload); through the real CLI every history of <= 2 (thorough: 3) commands over 4 (controller set, engine, command) letters from 3 initial states of the routes file", len(cases), len(adversarial()), len(flagSets))
	run.Rule = "state = (scenario, engine, flag set); transition = one routes generation + gofmt check + real `go build` of the generated packages with the user's controllers and authorization package; validated = generated files checked"
	run.Assumptions = []string{"a scenario whose route generation returns an error is allowed (rejected rather than producing a file)"}
	os.RemoveAll(scratch)
	run.Finish()
}

func classify(msg string) string {
	switch {
	case strings.Contains(msg, "redeclared"):
		return "redeclared"
	case strings.Contains(msg, "undefined"):
		return "undefined"
	case strings.Contains(msg, "missing import path") || strings.Contains(msg, "expected"):
		return "syntax"
	case strings.Contains(msg, "declared and not used"):
		return "unused"
	case strings.Contains(msg, "cannot use"):
		return "type-mismatch"
	}
	return "other"
}

func firstLines(s string, n int) string {
	l := strings.Split(strings.TrimSpace(s), "\n")
	if len(l) > n {
		l = l[:n]
	}
	return strings.Join(l, " | ")
}

func firstDiff(a, b string) string {
	al, bl := strings.Split(a, "\n"), strings.Split(b, "\n")
	for i := 0; i < len(al) && i < len(bl); i++ {
		if al[i] != bl[i] {
			return fmt.Sprintf("line %d: %q vs %q", i+1, al[i], bl[i])
		}
	}
	return fmt.Sprintf("%d vs %d lines", len(al), len(bl))
}

// sameLinesModuloBlankAndOrder: the two texts consist of the same non-blank lines; only blank lines differ and,
// as a consequence of merged import groups, the order of import lines.
func sameLinesModuloBlankAndOrder(a, b string) bool {
	norm := func(s string) string {
		var body, imports []string
		for _, l := range strings.Split(s, "\n") {
			t := strings.TrimSpace(l)
			if t == "" {
				continue
			}
			if strings.HasSuffix(t, "\"") && (strings.HasPrefix(t, "\"") || strings.Contains(t, " \"")) && !strings.Contains(t, "(") {
				imports = append(imports, t)
				continue
			}
			body = append(body, l)
		}
		sort.Strings(imports)
		return strings.Join(body, "\n") + "\n--imports--\n" + strings.Join(imports, "\n")
	}
	return norm(a) == norm(b)
}
