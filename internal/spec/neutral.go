package spec

import (
	"encoding/json"
	"fmt"
	"sort"
	"strings"
)

// Neutral turns a schema of either dialect into a dialect-neutral tree: 3.0 `nullable` and 3.1 type arrays /
// null branches both become "nullable"; 3.0 boolean exclusiveMinimum/Maximum and 3.1 numeric ones both become
// (bound, exclusive) pairs. Descriptions, titles and examples are dropped (C11 does not list them).
func Neutral(s any) any {
	m := M(s)
	if m == nil {
		return nil
	}
	out := map[string]any{}
	if r := Str(m["$ref"]); r != "" {
		out["ref"] = r[strings.LastIndexByte(r, '/')+1:]
	}
	nullable, _ := m["nullable"].(bool)
	switch t := m["type"].(type) {
	case string:
		out["type"] = t
	case []any:
		var ts []string
		for _, x := range t {
			if Str(x) == "null" {
				nullable = true
			} else {
				ts = append(ts, Str(x))
			}
		}
		sort.Strings(ts)
		if len(ts) == 1 {
			out["type"] = ts[0]
		} else if len(ts) > 1 {
			out["type"] = strings.Join(ts, "|")
		}
	}
	for _, comb := range []string{"allOf", "oneOf", "anyOf"} {
		l := L(m[comb])
		if len(l) == 0 {
			continue
		}
		var parts []any
		for _, x := range l {
			if Str(M(x)["type"]) == "null" && len(M(x)) == 1 {
				nullable = true
				continue
			}
			parts = append(parts, Neutral(x))
		}
		if len(parts) == 1 && comb != "allOf" {
			// a nullable wrapper around one schema: merge
			for k, v := range parts[0].(map[string]any) {
				if _, exists := out[k]; !exists {
					out[k] = v
				}
			}
		} else if len(parts) == 1 && len(out) == 0 && len(m) <= 2 {
			for k, v := range parts[0].(map[string]any) {
				out[k] = v
			}
		} else if len(parts) > 0 {
			out[comb] = parts
		}
	}
	if nullable {
		out["nullable"] = true
	}
	if f := Str(m["format"]); f != "" {
		out["format"] = f
	}
	if it, ok := m["items"]; ok {
		out["items"] = Neutral(it)
	}
	if ap, ok := m["additionalProperties"]; ok {
		if b, isBool := ap.(bool); isBool {
			out["additionalProperties"] = b
		} else {
			out["additionalProperties"] = Neutral(ap)
		}
	}
	if props := M(m["properties"]); len(props) > 0 {
		pm := map[string]any{}
		for k, v := range props {
			pm[k] = Neutral(v)
		}
		out["properties"] = pm
	}
	if req := L(m["required"]); len(req) > 0 {
		var r []string
		for _, x := range req {
			r = append(r, Str(x))
		}
		sort.Strings(r)
		out["required"] = r
	}
	if en, ok := m["enum"]; ok {
		var vals []string
		for _, x := range L(en) {
			vals = append(vals, Canon(x))
		}
		sort.Strings(vals)
		out["enum"] = vals
	}
	num := func(v any) (float64, bool) {
		if n, ok := v.(json.Number); ok {
			f, err := n.Float64()
			return f, err == nil
		}
		return 0, false
	}
	// lower bound
	if v, ok := num(m["minimum"]); ok {
		excl, _ := m["exclusiveMinimum"].(bool)
		out["min"] = fmt.Sprintf("%v excl=%v", v, excl)
	}
	if v, ok := num(m["exclusiveMinimum"]); ok {
		out["min"] = fmt.Sprintf("%v excl=%v", v, true)
	}
	if v, ok := num(m["maximum"]); ok {
		excl, _ := m["exclusiveMaximum"].(bool)
		out["max"] = fmt.Sprintf("%v excl=%v", v, excl)
	}
	if v, ok := num(m["exclusiveMaximum"]); ok {
		out["max"] = fmt.Sprintf("%v excl=%v", v, true)
	}
	for _, k := range []string{"minLength", "maxLength", "minItems", "maxItems", "minProperties", "maxProperties", "multipleOf"} {
		if v, ok := num(m[k]); ok {
			if v == 0 && strings.HasPrefix(k, "min") {
				continue // a zero lower bound is the default
			}
			out[k] = v
		}
	}
	for _, k := range []string{"pattern"} {
		if v := Str(m[k]); v != "" {
			out[k] = v
		}
	}
	if b, _ := m["uniqueItems"].(bool); b {
		out["uniqueItems"] = true
	}
	if b, _ := m["deprecated"].(bool); b {
		out["deprecated"] = true
	}
	return out
}

// NeutralOp renders an operation dialect-neutrally.
func NeutralOp(op Op) map[string]any {
	out := map[string]any{"operationId": op.OperationID(), "tags": op.Tags(), "deprecated": op.Deprecated()}
	var params []any
	for _, p := range L(op.Raw["parameters"]) {
		pm := M(p)
		req, _ := pm["required"].(bool)
		params = append(params, map[string]any{"name": Str(pm["name"]), "in": Str(pm["in"]), "required": req, "schema": Neutral(pm["schema"])})
	}
	out["parameters"] = params
	if rb := M(op.Raw["requestBody"]); rb != nil {
		req, _ := rb["required"].(bool)
		content := map[string]any{}
		for mime, c := range M(rb["content"]) {
			content[mime] = Neutral(M(c)["schema"])
		}
		out["requestBody"] = map[string]any{"required": req, "content": content}
	}
	resps := map[string]any{}
	for code, r := range M(op.Raw["responses"]) {
		rm := M(r)
		if code == "default" && len(M(rm["content"])) == 0 {
			continue // boilerplate default response without content (3.0 generator only): dialect noise
		}
		content := map[string]any{}
		for mime, c := range M(rm["content"]) {
			content[mime] = Neutral(M(c)["schema"])
		}
		resps[code] = content
	}
	out["responses"] = resps
	sec, ok := op.Security()
	if ok && len(sec) > 0 {
		out["security"] = sec
	}
	return out
}

// Diff lists the paths at which two JSON-like trees differ.
func Diff(a, b any, path string, out *[]string) {
	if len(*out) > 20 {
		return
	}
	am, aok := a.(map[string]any)
	bm, bok := b.(map[string]any)
	if aok && bok {
		keys := map[string]bool{}
		for k := range am {
			keys[k] = true
		}
		for k := range bm {
			keys[k] = true
		}
		var ks []string
		for k := range keys {
			ks = append(ks, k)
		}
		sort.Strings(ks)
		for _, k := range ks {
			av, ain := am[k]
			bv, bin := bm[k]
			if !ain || !bin {
				*out = append(*out, fmt.Sprintf("%s/%s: %s vs %s", path, k, canonOrAbsent(av, ain), canonOrAbsent(bv, bin)))
				continue
			}
			Diff(av, bv, path+"/"+k, out)
		}
		return
	}
	if Canon(a) != Canon(b) {
		*out = append(*out, fmt.Sprintf("%s: %s vs %s", path, trunc(Canon(a)), trunc(Canon(b))))
	}
}

func canonOrAbsent(v any, present bool) string {
	if !present {
		return "<absent>"
	}
	return trunc(Canon(v))
}

func trunc(s string) string {
	if len(s) > 160 {
		return s[:160] + "…"
	}
	return s
}
