// Package c01 decides C01 (OpenAPI operations are exactly the non-hidden annotated routes) by enumerating a
// bounded space of controller/route/verb/flag combinations and multi-controller layouts, running every one of
// them through the real pipeline and both spec generators, and comparing the documented operations with a
// reference route model. Packed runs are cross-checked against single-project runs.
package c01

import (
	"fmt"
	"os"
	"regexp"
	"sort"
	"strings"
	"time"

	"verif/internal/core"
	"verif/internal/scen"
	"verif/internal/spec"
)

var multiSlash = regexp.MustCompile(`/+`)
var paramRe = regexp.MustCompile(`\{([A-Za-z0-9_-]+)\}`)

func collapse(p string) string { return multiSlash.ReplaceAllString(p, "/") }

// expectedOp is what the reference model says the spec must contain for one method.
type expectedOp struct {
	Key        string // "VERB /path"
	Name       string
	Tag        string
	Deprecated bool
	Hidden     bool
	Ctl        string
}

func expectedOps(cs []scen.Controller) []expectedOp {
	var out []expectedOp
	for _, c := range cs {
		if c.NoEmbed {
			continue // not a controller: its methods are not routes
		}
		prefix := ""
		if c.Prefix != nil {
			prefix = *c.Prefix
		}
		tag := ""
		if c.Tag != nil {
			tag = *c.Tag
		}
		for _, m := range c.Methods {
			if m.Verb == "" || m.Route == nil || m.Recv != "" {
				continue
			}
			out = append(out, expectedOp{Key: m.Verb + " " + collapse(prefix+*m.Route), Name: m.Name, Tag: tag, Deprecated: m.Deprecated, Hidden: m.Hidden, Ctl: c.Name})
		}
	}
	return out
}

func pathParams(tmpl string) []scen.Param {
	var ps []scen.Param
	seen := map[string]bool{}
	for _, m := range paramRe.FindAllStringSubmatch(tmpl, -1) {
		if !seen[m[1]] {
			seen[m[1]] = true
			if goName := strings.ReplaceAll(m[1], "-", ""); goName != m[1] {
				ps = append(ps, scen.Param{Name: goName, Type: "string", In: "Path", Alias: m[1]})
			} else {
				ps = append(ps, scen.Param{Name: m[1], Type: "string", In: "Path"})
			}
		}
	}
	return ps
}

func method(name, verb, route string, prefix string) scen.Method {
	return scen.Method{Name: name, Verb: verb, Route: scen.S(route), Params: pathParams(prefix + route)}
}

// ---- family A/B: one controller, full product -----------------------------------------------------------

// Cases returns the one-controller product family (used by C08/C11 as the 'layout' family).
func Cases(tier string) []scen.Case { return productCases(tier) }

// AllCases returns the product and the multi-controller layout families.
func AllCases(tier string) []scen.Case {
	cs := productCases(tier)
	return append(cs, layoutCases(tier, len(cs))...)
}

func productCases(tier string) []scen.Case {
	verbs := []string{"GET", "POST", "PUT", "DELETE", "PATCH"}
	prefixesA := []string{"/§", "§", "/§/", "//§", "/§/a", "/§//a", "/§/{t}"}
	routesA := []string{"/", "/x", "x", "/x/", "//x", "/x//y", "/{id}", "/x/{id}", "/{id}/y", "/x/{my-id}", "/x/v{id}/y"}
	prefixesB := []string{"<none>", "/", ""}
	routesB := []string{"/§", "§", "/§/", "//§", "/§/x", "/§//x", "/§/{id}", "/{id}/§"}
	tags := []string{"T§", "T § with space"}
	var cases []scen.Case
	n := 0
	add := func(prefix, route, verb string, hidden, deprecated bool, tag string, family string) {
		id := fmt.Sprintf("s%04d", n)
		n++
		sub := func(s string) string { return strings.ReplaceAll(s, "§", id) }
		c := scen.Controller{Name: "C" + id + "Ctl", Pkg: id, Tag: scen.S(sub(tag))}
		if tag == "<none>" {
			c.Tag = nil
		}
		pfx := ""
		if prefix != "<none>" {
			c.Prefix = scen.S(sub(prefix))
			pfx = sub(prefix)
		}
		m := method("Op"+id, verb, sub(route), pfx)
		m.Hidden, m.Deprecated = hidden, deprecated
		m.HiddenForm = n / 2
		sibRoute := "/sib"
		if family == "B" {
			sibRoute = "/" + id + "/sib"
		}
		sib := method("Sib"+id, "GET", sibRoute, pfx)
		// a second verb on exactly the same (raw) route: two operations must share one path item
		otherVerb := map[string]string{"GET": "PUT", "POST": "DELETE", "PUT": "PATCH", "DELETE": "GET", "PATCH": "POST"}[verb]
		twin := method("Twin"+id, otherVerb, sub(route), pfx)
		c.Methods = []scen.Method{m, sib, twin}
		// the same annotations written differently / the methods declared in another order: same API
		switch n % 3 {
		case 1:
			for i := range c.Methods {
				c.Methods[i].Style = 1
			}
		case 2:
			c.Methods = []scen.Method{twin, sib, m}
		}
		if n%4 == 3 {
			// value receivers are methods of the controller just the same
			for i := range c.Methods {
				c.Methods[i].ValueRecv = i != 1
			}
		}
		cases = append(cases, scen.Case{ID: id, Unit: scen.Unit{Controllers: []scen.Controller{c}},
			Features: map[string]string{"family": family, "prefix": prefix, "route": route, "verb": verb, "hidden": fmt.Sprint(hidden), "deprecated": fmt.Sprint(deprecated), "tag": tag},
			Desc:     []scen.Controller{c}})
	}
	for _, p := range prefixesA {
		for _, r := range routesA {
			for _, v := range verbs {
				for _, hd := range [][2]bool{{false, false}, {true, false}, {false, true}, {true, true}} {
					for ti, t := range tags {
						plain := v == "GET" && !hd[0] && !hd[1]
						if tier != "thorough" && !plain && (ti == 1 || p == "§") {
							continue // quick: the second tag and the slash-less prefix (rejected at spec time anyway) only with the plainest method
						}
						add(p, r, v, hd[0], hd[1], t, "A")
					}
				}
			}
		}
	}
	// controllers without any doc comment (no @Route, no @Tag): accepted (a missing tag is only a warning)
	for _, r := range routesB {
		for _, v := range []string{"GET", "POST"} {
			if r == "§" {
				continue
			}
			add("<none>", r, v, false, false, "<none>", "B")
		}
	}
	for _, p := range prefixesB {
		for _, r := range routesB {
			for _, v := range verbs {
				for _, hd := range [][2]bool{{false, false}, {true, false}, {false, true}} {
					if tier != "thorough" && r == "§" && (v != "GET" || hd[0] || hd[1]) {
						continue
					}
					add(p, r, v, hd[0], hd[1], tags[0], "B")
				}
			}
		}
	}
	return cases
}

// ---- family M: several controllers, files and packages; deviations from a base layout --------------------

type mutator struct {
	name string
	f    func(u *scen.Unit, id string)
}

func baseLayout(id string) scen.Unit {
	mk := func(name, pkg, prefix string) scen.Controller {
		c := scen.Controller{Name: name, Pkg: pkg, Prefix: scen.S(prefix), Tag: scen.S("T" + name)}
		c.Methods = []scen.Method{method(name+"One", "GET", "/one", prefix), method(name+"Two", "POST", "/two/{id}", prefix)}
		return c
	}
	return scen.Unit{Controllers: []scen.Controller{
		mk("A"+id, id+"/p", "/"+id+"/a"),
		mk("B"+id, id+"/p", "/"+id+"/b"),
		mk("C"+id, id+"/q", "/"+id+"/c"),
	}}
}

func mutators() []mutator {
	return []mutator{
		{"A.method-in-other-file", func(u *scen.Unit, id string) { u.Controllers[0].Methods[1].File = "extra.go" }},
		{"B.method-in-other-file", func(u *scen.Unit, id string) { u.Controllers[1].Methods[0].File = "extra.go" }},
		{"A.hidden", func(u *scen.Unit, id string) { u.Controllers[0].Methods[0].Hidden = true }},
		{"C.all-hidden", func(u *scen.Unit, id string) {
			u.Controllers[2].Methods[0].Hidden = true
			u.Controllers[2].Methods[1].Hidden = true
		}},
		{"B.deprecated", func(u *scen.Unit, id string) { u.Controllers[1].Methods[1].Deprecated = true }},
		{"B.prefix-extends-A", func(u *scen.Unit, id string) { u.Controllers[1].Prefix = scen.S("/" + id + "/a/b") }},
		{"A,B.same-prefix", func(u *scen.Unit, id string) {
			u.Controllers[1].Prefix = u.Controllers[0].Prefix
			u.Controllers[1].Methods[0].Route = scen.S("/three")
			u.Controllers[1].Methods[1].Route = scen.S("/four/{id}")
		}},
		{"A,C.same-tag", func(u *scen.Unit, id string) { u.Controllers[2].Tag = u.Controllers[0].Tag }},
		{"A.same-route-other-verb", func(u *scen.Unit, id string) {
			u.Controllers[0].Methods[1] = method(u.Controllers[0].Name+"Two", "POST", "/one", *u.Controllers[0].Prefix)
		}},
		{"C.same-name-as-A-other-package", func(u *scen.Unit, id string) {
			old := u.Controllers[2].Name
			u.Controllers[2].Name = u.Controllers[0].Name
			for i := range u.Controllers[2].Methods {
				u.Controllers[2].Methods[i].Name = strings.Replace(u.Controllers[2].Methods[i].Name, old, "Cx"+id, 1)
			}
		}},
		{"plain-struct-named-like-A-with-annotated-methods", func(u *scen.Unit, id string) {
			c := scen.Controller{Name: u.Controllers[0].Name, Pkg: id + "/r", NoEmbed: true}
			c.Methods = []scen.Method{method("Ghost"+id, "GET", "/ghost", "")}
			u.Controllers = append(u.Controllers, c)
		}},
		{"C.no-methods", func(u *scen.Unit, id string) { u.Controllers[2].Methods = nil }},
		{"B.no-doc-comment-after-A-in-the-same-file", func(u *scen.Unit, id string) {
			u.Controllers[0].File, u.Controllers[1].File = "shared.go", "shared.go"
			u.Controllers[1].Prefix, u.Controllers[1].Tag = nil, nil
			for i := range u.Controllers[1].Methods {
				r := "/" + id + "/bare" + *u.Controllers[1].Methods[i].Route
				u.Controllers[1].Methods[i].Route = &r
			}
		}},
		{"A.unannotated-helper-method", func(u *scen.Unit, id string) {
			u.Controllers[0].Methods = append(u.Controllers[0].Methods, scen.Method{Name: "helper" + id, Err: "-"})
		}},
		{"nested-package-sorting-between-the-files-of-p", func(u *scen.Unit, id string) {
			// <id>/p/d/ sorts after ctl_*.go and before extra.go of <id>/p
			c := scen.Controller{Name: "D" + id, Pkg: id + "/p/d", Prefix: scen.S("/" + id + "/d"), Tag: scen.S("TD" + id)}
			c.Methods = []scen.Method{method("D"+id+"One", "GET", "/one", "/"+id+"/d")}
			u.Controllers = append(u.Controllers, c)
		}},
		{"A.literal-route-declared-before-an-overlapping-parameter-route", func(u *scen.Unit, id string) {
			// GET /a/zone/me (method Zeta, declared first) and GET /a/zone/{id} (method Alpha): an accepted project
			// (route-conflict warning); a request for the literal path belongs to the literal route on every engine
			c := &u.Controllers[0]
			pfx := *c.Prefix
			zeta := method("Zeta"+id, "GET", "/zone/me", pfx)
			alpha := method("Alpha"+id, "GET", "/zone/{id}", pfx)
			c.Methods = append([]scen.Method{zeta, alpha}, c.Methods...)
		}},
		{"A.method-in-a-file-with-a-generated-code-header", func(u *scen.Unit, id string) {
			ms := u.Controllers[0].Methods
			ms[len(ms)-1].File = "scaffold_generated.go"
		}},
		{"C.declared-in-a-grouped-type-block", func(u *scen.Unit, id string) { u.Controllers[2].Grouped = true }},
		{"B.no-leading-slash-route", func(u *scen.Unit, id string) { u.Controllers[1].Methods[0].Route = scen.S("one") }},
	}
}

func layoutCases(tier string, startN int) []scen.Case {
	muts := mutators()
	maxDev := 2
	if tier == "thorough" {
		maxDev = 3
	}
	var cases []scen.Case
	n := startN
	var rec func(start int, chosen []int)
	rec = func(start int, chosen []int) {
		id := fmt.Sprintf("s%04d", n)
		n++
		u := baseLayout(id)
		var names []string
		for _, mi := range chosen {
			muts[mi].f(&u, id)
			names = append(names, muts[mi].name)
		}
		feat := map[string]string{"family": "M", "deviations": strings.Join(names, "+")}
		for _, nm := range names {
			feat["dev:"+nm] = "true"
		}
		cases = append(cases, scen.Case{ID: id, Unit: u, Features: feat, Desc: map[string]any{"deviations": names, "controllers": u.Controllers}})
		if len(chosen) == maxDev {
			return
		}
		for i := start; i < len(muts); i++ {
			rec(i+1, append(append([]int(nil), chosen...), i))
		}
	}
	rec(0, nil)
	return cases
}

// ---- oracle ------------------------------------------------------------------------------------------------

type projection struct {
	Accepted bool
	Reason   string
	Ops      map[string][]string // version -> sorted "KEY id=.. tags=.. deprecated=.."
}

func (p projection) String() string {
	var sb strings.Builder
	fmt.Fprintf(&sb, "accepted=%v", p.Accepted)
	for _, v := range []string{"3.0.0", "3.1.0"} {
		fmt.Fprintf(&sb, " | %s: %s", v, strings.Join(p.Ops[v], "; "))
	}
	return sb.String()
}

type checker struct {
	run    *core.Run
	packed map[string]projection
	single map[string]projection
}

func belongs(path, id string) bool {
	return strings.Contains(path, id) // ids have a fixed width, so no id is a substring of another
}

func (ck *checker) handle(o scen.Outcome, single bool) {
	res := o.Res
	docs := map[string]spec.Doc{}
	hard := ""
	if res.Crashed != "" || res.Panic != "" || res.ConfigErr != "" || res.PipelineErr != "" || res.GraphErr != "" || res.ValidateErr != "" || res.InterErr != "" {
		hard = res.FailureSummary()
	}
	for ver, art := range res.Specs {
		if art.Err != "" || art.Panic != "" {
			if hard == "" {
				hard = "spec " + ver + ": " + firstLine(art.Err+art.Panic)
			}
			continue
		}
		d, err := spec.Parse(art.Content)
		if err != nil {
			ck.run.Report(core.Violation{Oracle: "spec-is-json", Features: map[string]string{"version": ver}, What: err.Error(), Case: o.Cases[0]})
			continue
		}
		docs[ver] = d
	}
	attributed := map[string]map[string]bool{} // version -> op key -> attributed
	for _, c := range o.Cases {
		proj := projection{Ops: map[string][]string{}}
		diags := scen.DiagsFor(res, c)
		switch {
		case hard != "":
			proj.Reason = hard
		case scen.HasErrorDiag(diags):
			proj.Reason = "error diagnostics"
		case len(docs) < 2:
			proj.Reason = "spec missing"
		default:
			proj.Accepted = true
		}
		ctls := c.Unit.Controllers
		exp := expectedOps(ctls)
		for ver, d := range docs {
			if attributed[ver] == nil {
				attributed[ver] = map[string]bool{}
			}
			got := map[string]spec.Op{}
			for _, op := range d.Ops() {
				if belongs(op.Path, c.ID) {
					got[op.Key()] = op
					attributed[ver][op.Key()] = true
					proj.Ops[ver] = append(proj.Ops[ver], fmt.Sprintf("%s id=%s tags=%v deprecated=%v", op.Key(), op.OperationID(), op.Tags(), op.Deprecated()))
				}
			}
			sort.Strings(proj.Ops[ver])
			if !proj.Accepted {
				continue
			}
			feat := func(extra ...string) map[string]string {
				f := map[string]string{"version": ver, "single": fmt.Sprint(single)}
				for k, v := range c.Features {
					f[k] = v
				}
				for i := 0; i+1 < len(extra); i += 2 {
					f[extra[i]] = extra[i+1]
				}
				return f
			}
			want := map[string][]expectedOp{}
			for _, e := range exp {
				if !e.Hidden {
					want[e.Key] = append(want[e.Key], e)
				}
			}
			hiddenKeys := map[string]bool{}
			for _, e := range exp {
				if e.Hidden {
					hiddenKeys[e.Key] = true
				}
			}
			for k, es := range want {
				op, ok := got[k]
				if !ok {
					ck.run.Report(core.Violation{Oracle: "annotated-route-dropped", Features: feat(), What: fmt.Sprintf("%s (method %s of %s) is annotated and not hidden but the %s document has no such operation; it has %v", k, es[0].Name, es[0].Ctl, ver, proj.Ops[ver]), Case: c})
					continue
				}
				match := false
				for _, e := range es {
					if op.OperationID() == e.Name && len(op.Tags()) == 1 && op.Tags()[0] == e.Tag && op.Deprecated() == e.Deprecated {
						match = true
					}
				}
				if !match {
					ck.run.Report(core.Violation{Oracle: "operation-attributes", Features: feat(), What: fmt.Sprintf("%s is documented as id=%s tags=%v deprecated=%v; the annotated method(s) are %+v", k, op.OperationID(), op.Tags(), op.Deprecated(), es), Case: c})
				}
			}
			for k := range got {
				if _, ok := want[k]; !ok {
					oracle := "operation-invented"
					if hiddenKeys[k] {
						oracle = "hidden-route-documented"
					}
					ck.run.Report(core.Violation{Oracle: oracle, Features: feat(), What: fmt.Sprintf("the %s document has %s, which no non-hidden annotated method of this scenario maps to (expected %v)", ver, k, keysOf(want)), Case: c})
				}
			}
			ck.run.AddValidated(1)
		}
		if single {
			ck.single[c.ID] = proj
		} else {
			ck.packed[c.ID] = proj
		}
		ck.run.Outcome(fmt.Sprintf("single=%v accepted=%v ops30=%d", single, proj.Accepted, len(proj.Ops["3.0.0"])), 1)
		if !proj.Accepted {
			ck.run.Outcome("rejected: "+strings.SplitN(proj.Reason, ":", 2)[0], 1)
			if os.Getenv("VERIF_DEBUG") != "" && single {
				fmt.Printf("DEBUG rejected %s %v: %s\n", c.ID, c.Features, proj.Reason)
			}
		}
	}
	// every documented operation must belong to some scenario of the project
	for ver, d := range docs {
		for _, op := range d.Ops() {
			if !attributed[ver][op.Key()] {
				ck.run.Report(core.Violation{Oracle: "operation-invented", Features: map[string]string{"version": ver, "unattributed": "true"}, What: fmt.Sprintf("%s document contains %s which belongs to no scenario in the project", ver, op.Key()), Case: o.Cases[0]})
			}
		}
	}
}

func keysOf(m map[string][]expectedOp) []string {
	var k []string
	for x := range m {
		k = append(k, x)
	}
	sort.Strings(k)
	return k
}

func firstLine(s string) string {
	if i := strings.IndexByte(s, '\n'); i >= 0 {
		s = s[:i]
	}
	if len(s) > 240 {
		s = s[:240]
	}
	return s
}

func Main(tier, replay string) {
	run := core.NewRun("C01", tier)
	scratch := scen.MkScratch("c01")
	defer os.RemoveAll(scratch)
	rn := &scen.Runner{Scratch: scratch, Specs: []string{"3.0.0", "3.1.0"}, PackSize: 120,
		BaseCfg: func() map[string]any { return scen.BaseConfig("gin", "3.0.0", nil) }}
	ck := &checker{run: run, packed: map[string]projection{}, single: map[string]projection{}}
	cases := productCases(tier)
	cases = append(cases, layoutCases(tier, len(cases))...)
	if replay != "" {
		_, v := core.LoadReplay(replay)
		id, _ := v.Case.(map[string]any)["id"].(string)
		var sel []scen.Case
		for _, c := range cases {
			if c.ID == id {
				sel = append(sel, c)
			}
		}
		if len(sel) == 0 {
			core.Harness("replay: scenario %q is not in the enumeration any more", id)
		}
		rn.RunSingles(sel, func(o scen.Outcome) { ck.handle(o, true) })
		run.AddStates(1)
		run.AddTransitions(1)
		run.Sample(sel[0])
		run.Bound = "replay of scenario " + id
		cleanupAndFinish(run, scratch)
		return
	}
	deadline := core.Deadline(tier, 8*time.Minute, 60*time.Minute)
	rn.RunPacked(cases, func(o scen.Outcome) { ck.handle(o, false) })
	// singles: the authoritative runs (exactly what the CLI does), and the pack-vs-single differential
	singles := cases
	if tier != "thorough" {
		// quick: every layout scenario (project-global features) and a covering subset of the product
		// (every prefix x every route with the plainest method, every verb/flag once); thorough: everything
		singles = nil
		for _, c := range cases {
			f := c.Features
			plain := f["verb"] == "GET" && f["hidden"] == "false" && f["deprecated"] == "false"
			if f["family"] == "M" || plain || (f["prefix"] == "/§" && f["route"] == "/x") || (f["prefix"] == "/" && f["route"] == "/§") {
				singles = append(singles, c)
			}
		}
	}
	if time.Now().After(deadline) {
		run.Cap("deadline reached before the single-project pass")
		singles = nil
	}
	rn.RunSingles(singles, func(o scen.Outcome) { ck.handle(o, true) })
	diffs := 0
	for _, c := range singles {
		p, okp := ck.packed[c.ID]
		s, oks := ck.single[c.ID]
		if !okp || !oks {
			continue
		}
		if p.String() != s.String() {
			diffs++
			run.Report(core.Violation{Oracle: "packed-equals-single", Features: c.Features, What: "the same scenario documents different operations alone and next to other controllers:\n  alone:  " + s.String() + "\n  packed: " + p.String(), Case: c})
		}
		run.AddValidated(1)
	}
	accepted := 0
	for _, p := range ck.single {
		if p.Accepted {
			accepted++
		}
	}
	run.AddStates(int64(len(cases)))
	run.AddTransitions(rn.Projects.Load())
	run.Set("scenarios", len(cases))
	run.Set("scenarios_accepted_alone", accepted)
	run.Set("scenarios_run_alone", len(singles))
	run.Set("projects_run", rn.Projects.Load())
	run.Set("pack_bisections", rn.Bisects.Load())
	run.Sample(cases[0])
	run.Sample(cases[len(cases)-1])
	run.Bound = fmt.Sprintf("full product of 1-controller scenarios (7 namespaced prefixes x 11 routes, 3 prefix-less x 8 routes, 5 verbs, hidden/deprecated, 2 tags: %d) + every subset of <= %d of %d layout deviations on a 3-controller/2-package base; both OpenAPI versions; each scenario packed and alone", len(productCases(tier)), map[string]int{"quick": 2, "thorough": 3}[tier], len(mutators()))
	run.Rule = "state = one scenario (controllers, files, packages, routes, verbs, flags); transition = one run of the real pipeline + both spec generators over a generated project; validated = per-scenario, per-version comparisons of documented operations with the reference route model, plus packed-vs-alone projections"
	run.Assumptions = []string{"path normalisation = collapsing runs of '/'", "when two methods map to one verb/path only membership of (operationId, tag, deprecated) is demanded"}
	cleanupAndFinish(run, scratch)
}

func cleanupAndFinish(run *core.Run, scratch string) {
	os.RemoveAll(scratch)
	run.Finish()
}
