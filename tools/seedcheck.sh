#!/bin/bash
# seedcheck.sh <patch> <check> [<check>...] — applies a seeded change to /repo, runs the quick tier of the given
# checks, reverts /repo, and prints one line per check (exit status, VIOLATION lines).
patch="$1"; shift
cd /verif || exit 2
if ! git -C /repo diff --quiet; then echo "/repo has uncommitted changes"; exit 2; fi
git -C /repo apply "$patch" || { echo "patch does not apply"; exit 2; }
trap 'git -C /repo checkout -- . ; git -C /repo clean -fdq -- generator core cmd common definitions gast graphs infrastructure 2>/dev/null' EXIT
for c in "$@"; do
  out=$(./vc "$c" quick 2>&1); rc=$?
  nv=$(echo "$out" | grep -c '^VIOLATION')
  echo "$c exit=$rc violations=$nv"
  echo "$out" | grep -B1 '^VIOLATION' | grep 'oracle=' | cut -c1-260 | head -4
done
