// Package c08 decides C08 (whenever a spec is emitted it is a valid, closed OpenAPI document) by running an
// independent structural validator over every document the scenario families produce (signatures, type
// graphs, route layouts, security shapes; both versions), whenever the real pipeline would have written it.
package c08

import (
	"fmt"
	"os"
	"regexp"
	"strings"

	"verif/internal/c01"
	"verif/internal/core"
	"verif/internal/fam"
	"verif/internal/scen"
	"verif/internal/spec"
)

var idRe = regexp.MustCompile(`[gtsvr][0-9]{4}`)

func lastLines(s string, n int) string {
	l := strings.Split(strings.TrimSpace(s), "\n")
	if len(l) > n {
		l = l[len(l)-n:]
	}
	return strings.Join(l, " | ")
}

func Main(tier, replay string) {
	run := core.NewRun("C08", tier)
	scratch := scen.MkScratch("c08")
	defer os.RemoveAll(scratch)
	sig, _ := fam.Signature(tier)
	typ, _, _ := fam.Types(tier)
	lay := fam.Family{Name: "layout", Cases: c01.Cases(tier), BaseCfg: fam.DefaultCfg, PackSize: 100}
	sec := fam.Security()
	gen := fam.Generics()
	docsChecked, findings := 0, 0
	var replayID string
	if replay != "" {
		_, v := core.LoadReplay(replay)
		replayID, _ = v.Case.(map[string]any)["id"].(string)
	}
	// routes of one shape whose template variables are named differently (GET /t/{id}, PUT /t/{key}), in one controller
	// and in two: whatever is written must pair every template name with its own path parameter
	var vn []scen.Case
	for i, split := range []bool{false, true} {
		id := fmt.Sprintf("r%04d", i)
		a := scen.Method{Name: "Get" + id, Verb: "GET", Route: scen.S("/t/{id}"), Params: []scen.Param{{Name: "id", Type: "string", In: "Path"}}, Ret: "string"}
		b := scen.Method{Name: "Put" + id, Verb: "PUT", Route: scen.S("/t/{key}"), Params: []scen.Param{{Name: "key", Type: "string", In: "Path"}}, Ret: "string"}
		c1 := scen.Controller{Name: "A" + id, Pkg: id, Prefix: scen.S("/" + id), Tag: scen.S("T" + id), Methods: []scen.Method{a, b}}
		u := scen.Unit{Controllers: []scen.Controller{c1}}
		if split {
			c1.Methods = []scen.Method{a}
			c2 := scen.Controller{Name: "B" + id, Pkg: id, Prefix: scen.S("/" + id), Tag: scen.S("U" + id), Methods: []scen.Method{b}}
			u = scen.Unit{Controllers: []scen.Controller{c1, c2}}
		}
		vn = append(vn, scen.Case{ID: id, Unit: u, Features: map[string]string{"family": "variable-names", "two-controllers": fmt.Sprint(split)}, Desc: u.Controllers})
	}
	varNames := fam.Family{Name: "variable-names", Cases: vn, BaseCfg: fam.DefaultCfg, PackSize: 1}
	for _, f := range []fam.Family{sig, typ, lay, sec, gen, varNames} {
		byID := map[string]scen.Case{}
		var packed, singles []scen.Case
		for _, c := range f.Cases {
			byID[c.ID] = c
			if replayID != "" {
				if c.ID == replayID {
					singles = append(singles, c)
				}
				continue
			}
			if c.Features["mutual"] == "true" || c.Features["prefix"] == "§" || c.Features["route"] == "§" {
				if tier == "thorough" {
					singles = append(singles, c)
				}
				continue // known hard rejections: no document is produced
			}
			if f.Name == "generics" || f.Name == "variable-names" {
				singles = append(singles, c) // many of these are rejected with a hard error: run alone
				continue
			}
			packed = append(packed, c)
			if tier == "thorough" || core.Pick(c.ID, 15) {
				singles = append(singles, c)
			}
		}
		cfg := f.BaseCfg()
		seenProject := map[string]bool{}
		rn := fam.Run(f, scratch, nil, packed, singles, func(v fam.View) {
			// one validation per project run, not per scenario
			if seenProject[v.Outcome.Dir] {
				return
			}
			seenProject[v.Outcome.Dir] = true
			res := v.Outcome.Res
			if res.ErrorDiags > 0 || v.Hard != "" {
				run.Outcome(f.Name+": no document (project rejected)", 1)
				return // the CLI writes nothing for this project
			}
			for ver, d := range v.Docs {
				docsChecked++
				run.AddValidated(1)
				fs := spec.Validate(d, ver, cfg)
				run.Outcome(fmt.Sprintf("%s: %s document, findings>0=%v", f.Name, ver, len(fs) > 0), 1)
				for _, fd := range fs {
					findings++
					c := v.Case
					if id := idRe.FindString(fd.Where + " " + fd.What); id != "" {
						if cc, ok := byID[id]; ok {
							c = cc
						}
					}
					feat := map[string]string{"version": ver, "rule": fd.Rule, "single": fmt.Sprint(v.Single)}
					for k, val := range c.Features {
						feat[k] = val
					}
					for k, val := range fd.Attrs {
						feat[k] = val
					}
					run.Report(core.Violation{Oracle: fd.Rule, Features: feat, What: ver + " " + strings.ReplaceAll(fd.Where, c.ID, "§") + ": " + fd.What, Case: c})
				}
			}
		})
		run.AddStates(int64(len(packed)))
		run.AddTransitions(rn.Projects.Load())
	}
	// ---- overwrite histories through the real CLI: the file at outputPath after any sequence of runs ----------
	if replayID == "" {
		var pick []scen.Case
		seenKind := map[string]bool{}
		for _, c := range sig.Cases {
			if k := c.Features["kind"]; c.Features["family"] == "sig-1param" && c.Features["validate"] == "" && c.Features["alias"] == "" && c.Features["ptr"] == "false" && !seenKind[k] && len(pick) < 10 {
				seenKind[k] = true
				pick = append(pick, c)
			}
		}
		if len(pick) < 3 {
			core.Harness("overwrite histories: only %d scenarios picked", len(pick))
		}
		rnc := &scen.Runner{Scratch: scratch, BaseCfg: fam.DefaultCfg}
		p := rnc.BuildProject(pick)
		all, _ := p.Config["commonConfig"].(map[string]any)["controllerGlobs"].([]string)
		mkCfg := func(globs []string, ver string) map[string]any {
			c := scen.CloneConfig(p.Config)
			scen.Set(c, "commonConfig.controllerGlobs", globs)
			scen.Set(c, "openapiGeneratorConfig.openapi", ver)
			return c
		}
		sameLen := func(c map[string]any) map[string]any {
			scen.Set(c, "openapiGeneratorConfig.info.version", "2.0.0")
			scen.Set(c, "openapiGeneratorConfig.info.title", "Scenario IPA")
			scen.Set(c, "openapiGeneratorConfig.baseUrl", "https://api.example.org/v2/")
			return c
		}
		alphabet := []scen.OWStep{
			{Name: "all-controllers/3.0.0", Config: mkCfg(all, "3.0.0"), Args: []string{"generate", "spec"}},
			{Name: "all-controllers/3.1.0", Config: mkCfg(all, "3.1.0"), Args: []string{"generate", "spec"}},
			{Name: "one-controller/3.0.0", Config: mkCfg(all[:1], "3.0.0"), Args: []string{"generate", "spec"}},
			{Name: "one-controller/3.1.0", Config: mkCfg(all[:1], "3.1.0"), Args: []string{"generate", "spec"}},
			{Name: "two-controllers/3.0.0/spec-and-routes", Config: mkCfg(all[:2], "3.0.0"), Args: []string{"generate", "spec-and-routes"}},
			// the same project and version with configuration texts edited to others of the same length: the document
			// a fresh run writes has the same byte count as letter 0's, and differs from it
			{Name: "all-controllers/3.0.0/same-length-config-edit", Config: sameLen(mkCfg(all, "3.0.0")), Args: []string{"generate", "spec"}},
		}
		initials := []scen.OWInitial{{Name: "no file"}, {Name: "a longer stale file", Files: map[string]string{"dist/openapi.json": strings.Repeat("stale ", 60000)}},
			{Name: "a shorter stale file", Files: map[string]string{"dist/openapi.json": "{}"}}}
		depth := 2
		if tier == "thorough" {
			depth = 3
		}
		obs := scen.RunOverwriteHistories(scratch, p, alphabet, initials, depth, []string{"dist/openapi.json"})
		for _, ob := range obs {
			run.AddStates(1)
			run.AddTransitions(int64(len(ob.Steps)))
			run.AddValidated(1)
			got, want := ob.Files["dist/openapi.json"], ob.Fresh["dist/openapi.json"]
			last := ob.Steps[len(ob.Steps)-1]
			feat := map[string]string{"family": "overwrite-history", "initial": ob.Initial, "last-step": last, "history-length": fmt.Sprint(len(ob.Steps))}
			cs := map[string]any{"id": "overwrite-history", "initial": ob.Initial, "steps": ob.Steps, "exit": ob.Exit}
			if ob.Exit[len(ob.Exit)-1] != 0 || want == "" {
				run.Report(core.Violation{Oracle: "accepted-project-writes-its-document", Features: feat, What: fmt.Sprintf("history %v from %q: the last command exited %d (fresh-tree document empty=%v): %s", ob.Steps, ob.Initial, ob.Exit[len(ob.Exit)-1], want == "", lastLines(ob.Output, 3)), Case: cs})
				continue
			}
			d, err := spec.Parse(got)
			switch {
			case err != nil:
				run.Report(core.Violation{Oracle: "file-at-output-path-is-a-document", Features: feat, What: fmt.Sprintf("history %v from %q: the file at outputPath is not JSON (%v); %d bytes where a fresh tree gets %d", ob.Steps, ob.Initial, err, len(got), len(want)), Case: cs})
			case got != want:
				run.Report(core.Violation{Oracle: "file-at-output-path-is-what-this-run-generates", Features: feat, What: fmt.Sprintf("history %v from %q: the file at outputPath (%d bytes) differs from what the same command writes into an empty tree (%d bytes)", ob.Steps, ob.Initial, len(got), len(want)), Case: cs})
			}
			_ = d // byte-equal to the fresh-tree document, whose validity the family pass above judges
			run.Outcome("overwrite-history: "+ob.Initial+" -> document as a fresh run writes it="+fmt.Sprint(got == want), 1)
		}
		run.Set("overwrite_histories", len(obs))
	}
	run.Set("documents_validated", docsChecked)
	run.Set("findings_total", findings)
	run.Sample(map[string]any{"family": "signature", "case": sig.Cases[0]})
	run.Sample(map[string]any{"family": "types", "case": typ.Cases[0]})
	run.Bound = fmt.Sprintf("every document (3.0.0 and 3.1.0) emitted for the signature (%d), type (%d), layout (%d), security (%d) and generic-instantiation (%d) scenario families, packed and alone; through the real CLI every history of <= %d commands over 6 (controller set, version, command, configuration text) letters from 3 initial states of the output file", len(sig.Cases), len(typ.Cases), len(lay.Cases), len(sec.Cases), len(gen.Cases), map[string]int{"quick": 2, "thorough": 3}[tier])
	run.Rule = "state = one generated project; transition = one run of the real pipeline + spec generators; validated = documents checked by the independent structural validator ($ref closure, path-template/path-parameter bijection, unique parameters, response descriptions, enum value types, JSON-schema types, info/servers/securitySchemes as configured)"
	run.Assumptions = []string{"documents of projects with error diagnostics are not judged (the command writes nothing for them; C10 checks that)"}
	os.RemoveAll(scratch)
	run.Finish()
}
