// Package c06 decides C06 (documented parameters, bodies and responses equal the declared method signature)
// by enumerating parameter lists, pointer-ness, validators and return shapes, running every scenario through
// the real pipeline and both spec generators and comparing each operation with the signature reference model.
package c06

import (
	"fmt"
	"os"
	"regexp"
	"sort"
	"strings"
	"time"

	"verif/internal/core"
	"verif/internal/fam"
	"verif/internal/scen"
	"verif/internal/spec"
)

var fmtRe = regexp.MustCompile(`\([a-z0-9-]+\)|\?`)

func baseKind(k string) string { return fmtRe.ReplaceAllString(k, "") }

func kindOK(got string, want []string) bool {
	g := baseKind(got)
	for _, w := range want {
		if g == w {
			return true
		}
	}
	return false
}

func jsonSchema(content any, mime string) any {
	return spec.M(spec.M(content)[mime])["schema"]
}

func checkOp(run *core.Run, v fam.View, ver string, exp fam.SigExpect) {
	rep := func(oracle, what string, extra ...string) {
		run.Report(core.Violation{Oracle: oracle, Features: v.Feat(append([]string{"version", ver}, extra...)...), What: ver + ": " + what, Case: v.Case, Expected: exp})
	}
	op := v.Op(ver, exp.OpID)
	if op == nil {
		rep("operation-present", "operation "+exp.OpID+" is missing")
		return
	}
	// parameters (path/query/header) in signature order
	var want []fam.SigParam
	var body *fam.SigParam
	var forms []fam.SigParam
	for i := range exp.Params {
		p := exp.Params[i]
		switch p.In {
		case "body":
			body = &exp.Params[i]
		case "form":
			forms = append(forms, p)
		default:
			want = append(want, p)
		}
	}
	got := spec.L(op.Raw["parameters"])
	var gotDesc, wantDesc []string
	for _, g := range got {
		m := spec.M(g)
		req, _ := m["required"].(bool)
		gotDesc = append(gotDesc, fmt.Sprintf("%s in %s required=%v", spec.Str(m["name"]), spec.Str(m["in"]), req))
	}
	for _, w := range want {
		wantDesc = append(wantDesc, fmt.Sprintf("%s in %s required=%v", w.Name, w.In, w.Required))
	}
	if strings.Join(gotDesc, "; ") != strings.Join(wantDesc, "; ") {
		// distinguish pure requiredness mismatches, order mismatches and set mismatches for known-finding matching
		oracle := "parameters-equal-signature"
		if len(got) == len(want) {
			sameNames, sameSet := true, true
			gn, wn := []string{}, []string{}
			for i := range got {
				m := spec.M(got[i])
				gn = append(gn, spec.Str(m["name"])+"/"+spec.Str(m["in"]))
				wn = append(wn, want[i].Name+"/"+want[i].In)
				if gn[i] != wn[i] {
					sameNames = false
				}
			}
			sort.Strings(gn)
			sort.Strings(wn)
			if strings.Join(gn, ",") != strings.Join(wn, ",") {
				sameSet = false
			}
			if sameNames {
				oracle = "parameter-required-flag"
			} else if sameSet {
				oracle = "parameter-order"
			}
		}
		rep(oracle, fmt.Sprintf("parameters are [%s], the signature says [%s]", strings.Join(gotDesc, "; "), strings.Join(wantDesc, "; ")))
	} else {
		for i, g := range got {
			k := spec.SchemaKind(spec.M(g)["schema"])
			if !kindOK(k, want[i].Kinds) {
				rep("parameter-schema", fmt.Sprintf("parameter %s has schema %s, the declared type maps to %v", want[i].Name, k, want[i].Kinds))
			}
			// a parameter written without any bounding rule is documented without bounds (whatever other
			// parameters of the same type elsewhere in the project carry)
			if want[i].Validate == "" || want[i].Validate == "required" {
				sch := spec.M(spec.M(g)["schema"])
				for _, kw := range []string{"minItems", "maxItems", "uniqueItems", "minimum", "maximum", "minLength", "maxLength", "pattern"} {
					if v, ok := sch[kw]; ok && fmt.Sprint(v) != "false" && fmt.Sprint(v) != "0" {
						rep("unvalidated-parameter-has-no-bounds", fmt.Sprintf("parameter %s carries %s=%v although no such rule is written for it", want[i].Name, kw, v))
					}
				}
			}
		}
	}
	// request body
	rb := spec.M(op.Raw["requestBody"])
	switch {
	case body != nil:
		if rb == nil {
			rep("body-present", "a @Body parameter is declared but the operation has no requestBody")
			break
		}
		k := spec.SchemaKind(jsonSchema(rb["content"], "application/json"))
		if !kindOK(k, body.Kinds) {
			rep("body-schema", fmt.Sprintf("requestBody schema is %s, the declared type maps to %v", k, body.Kinds))
		}
		if req, _ := rb["required"].(bool); req != body.Required {
			rep("body-required-flag", fmt.Sprintf("requestBody.required=%v, the signature says %v", req, body.Required))
		}
	case len(forms) > 0:
		if rb == nil {
			rep("form-present", "@FormField parameters are declared but the operation has no requestBody")
			break
		}
		sch := spec.M(jsonSchema(rb["content"], "application/x-www-form-urlencoded"))
		props := spec.M(sch["properties"])
		var gotNames, wantNames, gotReq, wantReq []string
		for n := range props {
			gotNames = append(gotNames, n)
		}
		for _, r := range spec.L(sch["required"]) {
			gotReq = append(gotReq, spec.Str(r))
		}
		for _, f := range forms {
			wantNames = append(wantNames, f.Name)
			if f.Required {
				wantReq = append(wantReq, f.Name)
			}
			if p, ok := props[f.Name]; ok {
				if k := spec.SchemaKind(p); !kindOK(k, f.Kinds) {
					rep("form-field-schema", fmt.Sprintf("form field %s has schema %s, the declared type maps to %v", f.Name, k, f.Kinds))
				}
			}
		}
		sort.Strings(gotNames)
		sort.Strings(wantNames)
		sort.Strings(gotReq)
		sort.Strings(wantReq)
		if strings.Join(gotNames, ",") != strings.Join(wantNames, ",") {
			rep("form-fields-equal-signature", fmt.Sprintf("urlencoded body has properties %v, the signature declares form fields %v", gotNames, wantNames))
		}
		if strings.Join(gotReq, ",") != strings.Join(wantReq, ",") {
			rep("form-required-list", fmt.Sprintf("urlencoded body requires %v, the signature says %v", gotReq, wantReq))
		}
	default:
		if rb != nil {
			rep("no-body-invented", "the method has neither @Body nor @FormField parameters but the operation has a requestBody")
		}
	}
	// responses
	resps := spec.M(op.Raw["responses"])
	var gotCodes []string
	for c := range resps {
		if c == "default" {
			continue // kin-openapi boilerplate, not judged
		}
		gotCodes = append(gotCodes, c)
	}
	wantCodes := append([]string{exp.SuccessCode}, exp.ErrCodes...)
	sort.Strings(gotCodes)
	sort.Strings(wantCodes)
	wantCodes = uniq(wantCodes)
	if strings.Join(gotCodes, ",") != strings.Join(wantCodes, ",") {
		rep("response-codes", fmt.Sprintf("responses are %v, the signature and annotations say %v", gotCodes, wantCodes))
		return
	}
	succ := spec.M(resps[exp.SuccessCode])
	succSchema := jsonSchema(succ["content"], "application/json")
	isErrCodeToo := false
	for _, e := range exp.ErrCodes {
		if e == exp.SuccessCode {
			isErrCodeToo = true
		}
	}
	if !isErrCodeToo {
		if exp.SuccessKind == nil {
			if succ["content"] != nil && len(spec.M(succ["content"])) > 0 {
				rep("success-without-content", fmt.Sprintf("the method returns no value but response %s has content", exp.SuccessCode))
			}
		} else if k := spec.SchemaKind(succSchema); !kindOK(k, exp.SuccessKind) {
			rep("success-schema", fmt.Sprintf("response %s has schema %s, the value type maps to %v", exp.SuccessCode, k, exp.SuccessKind))
		}
	}
	for _, code := range exp.ErrCodes {
		if code == exp.SuccessCode {
			continue
		}
		k := spec.SchemaKind(jsonSchema(spec.M(resps[code])["content"], "application/json"))
		if !kindOK(k, exp.ErrKinds) {
			rep("error-schema", fmt.Sprintf("error response %s has schema %s, the error type maps to %v", code, k, exp.ErrKinds))
		}
	}
	// context parameters never appear
	if strings.Contains(spec.Canon(op.Raw), `"ctx"`) {
		rep("context-never-documented", "the context parameter appears in the operation")
	}
}

func uniq(s []string) []string {
	var out []string
	for i, x := range s {
		if i == 0 || x != s[i-1] {
			out = append(out, x)
		}
	}
	return out
}

func Main(tier, replay string) {
	run := core.NewRun("C06", tier)
	scratch := scen.MkScratch("c06")
	defer os.RemoveAll(scratch)
	f, exp := fam.Signature(tier)
	packed := f.Cases
	var singles []scen.Case
	if replay != "" {
		_, v := core.LoadReplay(replay)
		id, _ := v.Case.(map[string]any)["id"].(string)
		packed = nil
		for _, c := range f.Cases {
			if c.ID == id {
				singles = append(singles, c)
			}
		}
		if len(singles) == 0 {
			core.Harness("replay: scenario %q not in the enumeration", id)
		}
	} else if tier == "thorough" {
		singles = f.Cases
	} else {
		for _, c := range f.Cases {
			if core.Pick(c.ID, 12) {
				singles = append(singles, c)
			}
		}
	}
	_ = time.Now
	acc, rej := 0, 0
	rejReasons := map[string]int{}
	packedAcc := map[string]bool{}
	rn := fam.Run(f, scratch, nil, packed, singles, func(v fam.View) {
		if !v.Single {
			packedAcc[v.Case.ID] = v.Accepted
		} else if pa, ok := packedAcc[v.Case.ID]; ok && pa != v.Accepted {
			run.Report(core.Violation{Oracle: "packed-equals-single", Features: v.Feat(), What: fmt.Sprintf("accepted alone=%v, packed=%v (%s)", v.Accepted, pa, v.Reason()), Case: v.Case})
		}
		if !v.Accepted {
			rej++
			r := v.Reason()
			if i := strings.IndexByte(r, ' '); i > 0 && strings.HasPrefix(r, "diagnostics") {
				rejReasons[r]++
			} else {
				rejReasons[strings.SplitN(r, ":", 2)[0]]++
			}
			run.Outcome("rejected "+v.Case.Features["family"], 1)
			return
		}
		acc++
		run.Outcome("accepted "+v.Case.Features["family"], 1)
		for _, ver := range []string{"3.0.0", "3.1.0"} {
			checkOp(run, v, ver, exp[v.Case.ID])
			run.AddValidated(1)
		}
	})
	run.AddStates(int64(len(f.Cases)))
	run.AddTransitions(rn.Projects.Load())
	run.Set("scenario_views_accepted", acc)
	run.Set("scenario_views_rejected", rej)
	run.Set("rejection_reasons", rejReasons)
	run.Set("pack_bisections", rn.Bisects.Load())
	run.Sample(f.Cases[0])
	run.Sample(f.Cases[len(f.Cases)-1])
	run.Bound = fmt.Sprintf("%d signature scenarios: 1-parameter full product (16 kinds x locations x pointer x wire alias x 5 validators), 2-parameter (location x pointer x validator)^2, 3-parameter orders x context position, 9 return shapes x 2 error types x @Response x @ErrorResponse; both OpenAPI versions", len(f.Cases))
	run.Rule = "state = one method signature with its annotations; transition = one run of the real pipeline + spec generators over a generated project; validated = per-version comparisons of parameters/requestBody/responses with the signature model"
	run.Assumptions = []string{"schema formats and nullability are not judged", "the 'default' response added by the 3.0 generator is not judged", "an alias/enum-typed parameter may be documented by reference or by its underlying primitive"}
	os.RemoveAll(scratch)
	run.Finish()
}
