// Package c17 decides C17 (the symbol graph's views stay mutually consistent under any sequence of edits) by
// explicit-state breadth-first search over operation histories applied to the real symboldg.SymbolGraph.
// States are de-duplicated on a canonical dump of the graph's whole private state (read by reflection); every
// transition re-checks all public views against a plain set-of-nodes / set-of-edges model, and every RemoveNode
// is additionally explored under all orders of its dependents snapshot (verifhook site "dependents").
package c17

import (
	"crypto/sha256"
	"fmt"
	"go/ast"
	"go/token"
	"os"
	"reflect"
	"runtime"
	"sort"
	"strconv"
	"strings"
	"sync"
	"sync/atomic"
	"time"
	"unsafe"

	"github.com/gopher-fleece/gleece/v2/common"
	"github.com/gopher-fleece/gleece/v2/core/metadata"
	"github.com/gopher-fleece/gleece/v2/core/metadata/typeref"
	"github.com/gopher-fleece/gleece/v2/gast"
	"github.com/gopher-fleece/gleece/v2/graphs"
	"github.com/gopher-fleece/gleece/v2/graphs/symboldg"
	"github.com/gopher-fleece/gleece/v2/infrastructure/verifhook"

	"verif/internal/core"
)

// ---- universe ------------------------------------------------------------------------------------------

const filePath = "/v/f.go"

// versionSets: how two versions of the file differ - in time and content hash, in the hash only (an edit within the
// clock's resolution), in the time only (a touch). Any difference makes the second a newer version.
var versionSets = [][]*gast.FileVersion{
	{{Path: filePath, ModTime: time.Unix(1000, 0), Hash: "h0"}, {Path: filePath, ModTime: time.Unix(2000, 0), Hash: "h1"}},
	{{Path: filePath, ModTime: time.Unix(1000, 0), Hash: "h0"}, {Path: filePath, ModTime: time.Unix(1000, 0), Hash: "h1"}},
	{{Path: filePath, ModTime: time.Unix(1000, 0), Hash: "h0"}, {Path: filePath, ModTime: time.Unix(2000, 0), Hash: "h0"}},
}
var versionSetNames = []string{"time and hash differ", "only the hash differs", "only the time differs"}

var versions = versionSets[0]
var currentVSet = 0

// anonymousLastKey makes the universe's last AST key a nameless node (see newUniverse).
var anonymousLastKey = false

type universe struct {
	nk    int
	nv    int
	nodes []ast.Node
	names []string // base names: K0.., int, error
}

func newUniverse(nk, nv int) *universe {
	u := &universe{nk: nk, nv: nv}
	for i := 0; i < nk; i++ {
		if anonymousLastKey && i == nk-1 {
			// a declaration without a name of its own: an embedded field (*Base) - its key has no name part
			u.nodes = append(u.nodes, &ast.Field{Type: &ast.StarExpr{Star: token.Pos(10 * (i + 1)), X: &ast.Ident{Name: "Base", NamePos: token.Pos(10*(i+1) + 1)}}})
		} else {
			u.nodes = append(u.nodes, &ast.TypeSpec{Name: &ast.Ident{Name: fmt.Sprintf("K%d", i), NamePos: token.Pos(10 * (i + 1))}})
		}
		u.names = append(u.names, fmt.Sprintf("K%d", i))
	}
	u.names = append(u.names, "int", "error")
	return u
}

// ref is a key as passed to the API: an AST key with a version, or a builtin.
type ref struct {
	K int // index into universe.names; >= nk means builtin
	V int
}

func (u *universe) isBuiltin(r ref) bool { return r.K >= u.nk }
func (u *universe) base(r ref) string    { return u.names[r.K] }
func (u *universe) key(r ref) graphs.SymbolKey {
	if u.isBuiltin(r) {
		return graphs.NewUniverseSymbolKey(u.names[r.K])
	}
	return graphs.NewSymbolKey(u.nodes[r.K], versions[r.V])
}
func (u *universe) refString(r ref) string {
	if u.isBuiltin(r) {
		return u.names[r.K]
	}
	return fmt.Sprintf("%s@v%d", u.names[r.K], r.V)
}

// ---- operations ----------------------------------------------------------------------------------------

type opKind int

const (
	opAddPrimitive opKind = iota
	opAddSpecial
	opAddStruct
	opAddAlias
	opAddEnum
	opAddField
	opAddEdge
	opRemoveEdge
	opRemoveNode
)

type op struct {
	Kind opKind
	A, B ref
	Edge string // "ty" | "ref" | "" (nil kind for RemoveEdge)
}

func (u *universe) opString(o op) string {
	switch o.Kind {
	case opAddPrimitive:
		return "AddPrimitive(int)"
	case opAddSpecial:
		return "AddSpecial(error)"
	case opAddStruct:
		return "AddStruct(" + u.refString(o.A) + ")"
	case opAddAlias:
		return "AddAlias(" + u.refString(o.A) + ")"
	case opAddEnum:
		return "AddEnum(" + u.refString(o.A) + ",int)"
	case opAddField:
		return "AddField(" + u.refString(o.A) + ":int)"
	case opAddEdge:
		return "AddEdge(" + u.refString(o.A) + "->" + u.refString(o.B) + "," + o.Edge + ")"
	case opRemoveEdge:
		k := o.Edge
		if k == "" {
			k = "nil"
		}
		return "RemoveEdge(" + u.refString(o.A) + "->" + u.refString(o.B) + "," + k + ")"
	case opRemoveNode:
		return "RemoveNode(" + u.refString(o.A) + ")"
	}
	return "?"
}

func (u *universe) allOps() []op {
	var ops []op
	ops = append(ops, op{Kind: opAddPrimitive}, op{Kind: opAddSpecial})
	var astRefs, allRefs []ref
	for k := 0; k < u.nk; k++ {
		for v := 0; v < u.nv; v++ {
			astRefs = append(astRefs, ref{k, v})
		}
	}
	allRefs = append(allRefs, astRefs...)
	allRefs = append(allRefs, ref{u.nk, 0}, ref{u.nk + 1, 0})
	for _, kind := range []opKind{opAddStruct, opAddAlias, opAddEnum, opAddField} {
		for _, r := range astRefs {
			ops = append(ops, op{Kind: kind, A: r})
		}
	}
	for _, f := range astRefs {
		for _, t := range allRefs {
			for _, ek := range []string{"ty", "ref"} {
				ops = append(ops, op{Kind: opAddEdge, A: f, B: t, Edge: ek})
			}
		}
	}
	for _, f := range astRefs {
		for _, t := range allRefs {
			for _, ek := range []string{"ty", "ref", ""} {
				ops = append(ops, op{Kind: opRemoveEdge, A: f, B: t, Edge: ek})
			}
		}
	}
	for _, r := range astRefs {
		ops = append(ops, op{Kind: opRemoveNode, A: r})
	}
	ops = append(ops, op{Kind: opRemoveNode, A: ref{u.nk, 0}})
	return ops
}

// ---- the real graph --------------------------------------------------------------------------------------

func (u *universe) sym(r ref, kind common.SymKind) metadata.SymNodeMeta {
	return metadata.SymNodeMeta{Name: u.names[r.K], Node: u.nodes[r.K], SymbolKind: kind, FVersion: versions[r.V]}
}

func (u *universe) applyReal(g *symboldg.SymbolGraph, o op) (err error) {
	defer func() {
		if r := recover(); r != nil {
			err = fmt.Errorf("PANIC: %v", r)
		}
	}()
	switch o.Kind {
	case opAddPrimitive:
		g.AddPrimitive(common.PrimitiveTypeInt)
	case opAddSpecial:
		g.AddSpecial(common.SpecialTypeError)
	case opAddStruct:
		_, err = g.AddStruct(symboldg.CreateStructNode{Data: metadata.StructMeta{SymNodeMeta: u.sym(o.A, common.SymKindStruct)}})
	case opAddAlias:
		_, err = g.AddAlias(symboldg.CreateAliasNode{Data: metadata.AliasMeta{SymNodeMeta: u.sym(o.A, common.SymKindAlias)}})
	case opAddEnum:
		_, err = g.AddEnum(symboldg.CreateEnumNode{Data: metadata.EnumMeta{SymNodeMeta: u.sym(o.A, common.SymKindEnum), ValueKind: metadata.EnumValueKindInt}})
	case opAddField:
		intKey := graphs.NewUniverseSymbolKey("int")
		root := typeref.NewNamedTypeRef(&intKey, nil)
		_, err = g.AddField(symboldg.CreateFieldNode{Data: metadata.FieldMeta{SymNodeMeta: u.sym(o.A, common.SymKindField),
			Type: metadata.TypeUsageMeta{SymNodeMeta: metadata.SymNodeMeta{Name: "int", FVersion: versions[o.A.V]}, Root: &root}}})
	case opAddEdge:
		g.AddEdge(u.key(o.A), u.key(o.B), symboldg.SymbolEdgeKind(o.Edge), nil)
	case opRemoveEdge:
		if o.Edge == "" {
			g.RemoveEdge(u.key(o.A), u.key(o.B), nil)
		} else {
			k := symboldg.SymbolEdgeKind(o.Edge)
			g.RemoveEdge(u.key(o.A), u.key(o.B), &k)
		}
	case opRemoveNode:
		g.RemoveNode(u.key(o.A))
	}
	return err
}

func privateField(g *symboldg.SymbolGraph, name string) any {
	f := reflect.ValueOf(g).Elem().FieldByName(name)
	if !f.IsValid() {
		core.Harness("SymbolGraph has no field %q any more: the reflective state dump must be updated", name)
	}
	return reflect.NewAt(f.Type(), unsafe.Pointer(f.UnsafeAddr())).Elem().Interface()
}

// dump renders the whole private state canonically (sorted; edge ordinals replaced by their rank).
func dump(g *symboldg.SymbolGraph) string {
	nodes, ok1 := privateField(g, "nodes").(map[string]*symboldg.SymbolNode)
	lookup, ok2 := privateField(g, "lookupKeys").(map[string]graphs.SymbolKey)
	edges, ok3 := privateField(g, "edges").(map[string]map[string]symboldg.SymbolEdgeDescriptor)
	deps, ok4 := privateField(g, "deps").(map[string]map[graphs.SymbolKey]struct{})
	rev, ok5 := privateField(g, "revDeps").(map[string]map[graphs.SymbolKey]struct{})
	if !(ok1 && ok2 && ok3 && ok4 && ok5) {
		core.Harness("SymbolGraph private field types changed: the reflective state dump must be updated")
	}
	var lines []string
	for b, n := range nodes {
		lines = append(lines, "N "+b+" "+n.Id.Id()+" "+string(n.Kind))
	}
	for b, k := range lookup {
		lines = append(lines, "L "+b+" "+k.Id())
	}
	var ords []int
	for _, inner := range edges {
		for _, d := range inner {
			ords = append(ords, int(d.Ordinal))
		}
	}
	sort.Ints(ords)
	rank := map[int]int{}
	for i, o := range ords {
		rank[o] = i
	}
	for b, inner := range edges {
		if len(inner) == 0 {
			lines = append(lines, "E0 "+b)
		}
		for ik, d := range inner {
			lines = append(lines, "E "+b+" "+ik+" "+d.Edge.From.Id()+" "+d.Edge.To.Id()+" "+string(d.Edge.Kind)+" #"+strconv.Itoa(rank[int(d.Ordinal)]))
		}
	}
	for b, set := range deps {
		if len(set) == 0 {
			lines = append(lines, "D0 "+b)
		}
		for k := range set {
			lines = append(lines, "D "+b+" "+k.Id())
		}
	}
	for b, set := range rev {
		if len(set) == 0 {
			lines = append(lines, "R0 "+b)
		}
		for k := range set {
			lines = append(lines, "R "+b+" "+k.Id())
		}
	}
	sort.Strings(lines)
	return strings.Join(lines, "\n")
}

// ---- the model -------------------------------------------------------------------------------------------

type mNode struct {
	ver  int // -1 for builtins
	kind common.SymKind
}

type mEdge struct {
	from, to string // base names
	kind     string
}

type model struct {
	nodes map[string]mNode
	edges []mEdge // insertion order
}

func newModel() *model { return &model{nodes: map[string]mNode{}} }

func (m *model) hasEdge(e mEdge) bool {
	for _, x := range m.edges {
		if x == e {
			return true
		}
	}
	return false
}

func (m *model) addEdge(e mEdge) {
	if !m.hasEdge(e) {
		m.edges = append(m.edges, e)
	}
}

func (m *model) removeEdges(pred func(mEdge) bool) {
	out := m.edges[:0:0]
	for _, e := range m.edges {
		if !pred(e) {
			out = append(out, e)
		}
	}
	m.edges = out
}

// removeNode: the node, every edge touching it, and (to a fixpoint) exactly those dependants that are left
// without an outgoing edge to an existing node.
func (m *model) removeNode(x string) {
	if _, ok := m.nodes[x]; !ok {
		return
	}
	work := []string{x}
	for len(work) > 0 {
		cur := work[0]
		work = work[1:]
		if _, ok := m.nodes[cur]; !ok {
			continue
		}
		var dependants []string
		for _, e := range m.edges {
			if e.to == cur && e.from != cur {
				dependants = append(dependants, e.from)
			}
		}
		delete(m.nodes, cur)
		m.removeEdges(func(e mEdge) bool { return e.from == cur || e.to == cur })
		for _, d := range dependants {
			if _, ok := m.nodes[d]; !ok {
				continue
			}
			has := false
			for _, e := range m.edges {
				if e.from == d {
					if _, ok := m.nodes[e.to]; ok {
						has = true
						break
					}
				}
			}
			if !has {
				work = append(work, d)
			}
		}
	}
}

func (m *model) addNode(name string, ver int, kind common.SymKind) {
	if n, ok := m.nodes[name]; ok {
		if n.ver == ver {
			return // re-inserting changes nothing
		}
		m.removeNode(name) // a newer (different) file version replaces the stale node
	}
	m.nodes[name] = mNode{ver: ver, kind: kind}
}

func (m *model) addBuiltin(name string, kind common.SymKind) {
	if _, ok := m.nodes[name]; !ok {
		m.nodes[name] = mNode{ver: -1, kind: kind}
	}
}

func (u *universe) applyModel(m *model, o op) {
	switch o.Kind {
	case opAddPrimitive:
		m.addBuiltin("int", common.SymKindBuiltin)
	case opAddSpecial:
		m.addBuiltin("error", common.SymKindSpecialBuiltin)
	case opAddStruct:
		m.addNode(u.base(o.A), o.A.V, common.SymKindStruct)
	case opAddAlias:
		m.addNode(u.base(o.A), o.A.V, common.SymKindAlias)
	case opAddEnum:
		m.addNode(u.base(o.A), o.A.V, common.SymKindEnum)
		m.addBuiltin("int", common.SymKindBuiltin)
	case opAddField:
		m.addNode(u.base(o.A), o.A.V, common.SymKindField)
		m.addBuiltin("int", common.SymKindBuiltin)
		m.addEdge(mEdge{u.base(o.A), "int", "ty"})
	case opAddEdge:
		m.addEdge(mEdge{u.base(o.A), u.base(o.B), o.Edge})
	case opRemoveEdge:
		m.removeEdges(func(e mEdge) bool {
			return e.from == u.base(o.A) && e.to == u.base(o.B) && (o.Edge == "" || e.kind == o.Edge)
		})
	case opRemoveNode:
		m.removeNode(u.base(o.A))
	}
}

func (m *model) reachable(from string) map[string]bool {
	out := map[string]bool{}
	var walk func(string)
	walk = func(n string) {
		for _, e := range m.edges {
			if e.from != n {
				continue
			}
			if _, ok := m.nodes[e.to]; !ok || out[e.to] {
				continue
			}
			out[e.to] = true
			walk(e.to)
		}
	}
	walk(from)
	return out
}

// ---- comparing the views ---------------------------------------------------------------------------------

type mismatch struct {
	oracle string
	what   string
}

func setString(m map[string]bool) string {
	var l []string
	for k := range m {
		l = append(l, k)
	}
	sort.Strings(l)
	return "{" + strings.Join(l, ",") + "}"
}

func (u *universe) baseOfKey(k graphs.SymbolKey) string {
	if k.IsUniverse {
		return k.Name
	}
	if k.Name == "" {
		// a nameless declaration: identify it by its position, as the key itself does
		for i, n := range u.nodes {
			if n.Pos() == k.Position {
				return u.names[i]
			}
		}
	}
	return k.Name
}

func edgeSet(edges map[string]symboldg.SymbolEdgeDescriptor, u *universe, self string, outgoing bool) map[string]bool {
	out := map[string]bool{}
	for _, d := range edges {
		f, t := u.baseOfKey(d.Edge.From), u.baseOfKey(d.Edge.To)
		if outgoing && f == self {
			out[f+"->"+t+":"+string(d.Edge.Kind)] = true
		}
		if !outgoing && t == self {
			out[f+"->"+t+":"+string(d.Edge.Kind)] = true
		}
	}
	return out
}

func nodeSet(nodes []*symboldg.SymbolNode, u *universe) map[string]bool {
	out := map[string]bool{}
	for _, n := range nodes {
		if n == nil {
			out["<nil>"] = true
			continue
		}
		out[u.baseOfKey(n.Id)] = true
	}
	return out
}

func sameSet(a, b map[string]bool) bool {
	if len(a) != len(b) {
		return false
	}
	for k := range a {
		if !b[k] {
			return false
		}
	}
	return true
}

// compare checks every public view of g against the model; it returns all mismatches.
func (u *universe) compare(g *symboldg.SymbolGraph, m *model) (out []mismatch) {
	defer func() {
		if r := recover(); r != nil {
			out = append(out, mismatch{"query-panic", fmt.Sprint(r)})
		}
	}()
	add := func(oracle, format string, a ...any) {
		out = append(out, mismatch{oracle, fmt.Sprintf(format, a...)})
	}
	realOut := map[string]map[string]bool{}
	realIn := map[string]map[string]bool{}
	for ki, name := range u.names {
		r := ref{K: ki, V: 0}
		mn, mExists := m.nodes[name]
		// existence, version, kind — asked with either version of the key
		for v := 0; v < u.nv; v++ {
			if u.isBuiltin(r) && v > 0 {
				break
			}
			q := u.key(ref{ki, v})
			if g.Exists(q) != mExists {
				add("exists", "Exists(%s)=%v, model says %v", u.refString(ref{ki, v}), g.Exists(q), mExists)
			}
		}
		node := g.Get(u.key(r))
		if node != nil && mExists {
			if node.Kind != mn.kind {
				add("node-kind", "%s has kind %s, model says %s", name, node.Kind, mn.kind)
			}
			if mn.ver >= 0 && !node.Id.Equals(u.key(ref{ki, mn.ver})) {
				add("node-version", "%s is stored under %s, model says version v%d", name, node.Id.FileId, mn.ver)
			}
		}
		// edges, all kinds and per kind
		for _, kinds := range [][]symboldg.SymbolEdgeKind{nil, {symboldg.EdgeKindType}, {symboldg.EdgeKindReference}} {
			wantOut, wantIn := map[string]bool{}, map[string]bool{}
			for _, e := range m.edges {
				if len(kinds) == 1 && string(kinds[0]) != e.kind {
					continue
				}
				s := e.from + "->" + e.to + ":" + e.kind
				if e.from == name {
					wantOut[s] = true
				}
				if e.to == name {
					wantIn[s] = true
				}
			}
			got := g.GetEdges(u.key(r), kinds)
			gotOut, gotIn := edgeSet(got, u, name, true), edgeSet(got, u, name, false)
			label := "all"
			if len(kinds) == 1 {
				label = string(kinds[0])
			}
			if len(kinds) == 0 {
				realOut[name], realIn[name] = gotOut, gotIn
			}
			if !sameSet(gotOut, wantOut) {
				add("edges-out", "outgoing edges of %s (kinds=%s) are %s, model says %s", name, label, setString(gotOut), setString(wantOut))
			}
			if !sameSet(gotIn, wantIn) {
				add("edges-in", "incoming edges of %s (kinds=%s) are %s, model says %s", name, label, setString(gotIn), setString(wantIn))
			}
		}
		if node != nil && mExists {
			wantChildren, wantParents := map[string]bool{}, map[string]bool{}
			for _, e := range m.edges {
				if e.from == name {
					if _, ok := m.nodes[e.to]; ok {
						wantChildren[e.to] = true
					}
				}
				if e.to == name {
					if _, ok := m.nodes[e.from]; ok {
						wantParents[e.from] = true
					}
				}
			}
			for _, sorting := range []symboldg.TraversalResultSorting{symboldg.TraversalSortingNone, symboldg.TraversalSortingOrdinalAsc} {
				var beh *symboldg.TraversalBehavior
				if sorting != symboldg.TraversalSortingNone {
					beh = &symboldg.TraversalBehavior{Sorting: sorting}
				}
				if got := nodeSet(g.Children(node, beh), u); !sameSet(got, wantChildren) {
					add("children", "Children(%s) = %s, model says %s", name, setString(got), setString(wantChildren))
				}
				if got := nodeSet(g.Parents(node, beh), u); !sameSet(got, wantParents) {
					add("parents", "Parents(%s) = %s, model says %s", name, setString(got), setString(wantParents))
				}
			}
			// filtered views: by node kind, by predicate, and by both at once - each filter narrows the unfiltered answer
			for _, kinds := range [][]common.SymKind{nil, {common.SymKindStruct}, {common.SymKindStruct, common.SymKindEnum, common.SymKindAlias, common.SymKindField, common.SymKindBuiltin, common.SymKindSpecialBuiltin}} {
				for _, withPred := range []bool{false, true} {
					if kinds == nil && !withPred {
						continue
					}
					pred := func(n *symboldg.SymbolNode) bool { return u.baseOfKey(n.Id) != "K0" }
					keep := func(x string) bool {
						if withPred && x == "K0" {
							return false
						}
						if kinds == nil {
							return true
						}
						for _, k := range kinds {
							if m.nodes[x].kind == k {
								return true
							}
						}
						return false
					}
					beh := &symboldg.TraversalBehavior{Filtering: symboldg.TraversalFilter{NodeKinds: kinds}}
					if withPred {
						beh.Filtering.FilterFunc = pred
					}
					wc, wp := map[string]bool{}, map[string]bool{}
					for x := range wantChildren {
						if keep(x) {
							wc[x] = true
						}
					}
					for x := range wantParents {
						if keep(x) {
							wp[x] = true
						}
					}
					label := fmt.Sprintf("kinds=%d predicate=%v", len(kinds), withPred)
					if got := nodeSet(g.Children(node, beh), u); !sameSet(got, wc) {
						add("filtered-children", "Children(%s, %s) = %s, the filtered model says %s", name, label, setString(got), setString(wc))
					}
					if got := nodeSet(g.Parents(node, beh), u); !sameSet(got, wp) {
						add("filtered-parents", "Parents(%s, %s) = %s, the filtered model says %s", name, label, setString(got), setString(wp))
					}
				}
			}
			if got := nodeSet(g.Descendants(node, nil), u); !sameSet(got, m.reachable(name)) {
				add("descendants", "Descendants(%s) = %s, model says %s", name, setString(got), setString(m.reachable(name)))
			}
			// ordered children follow edge insertion order
			var wantOrder []string
			for _, e := range m.edges {
				if e.from == name {
					if _, ok := m.nodes[e.to]; ok {
						wantOrder = append(wantOrder, e.to)
					}
				}
			}
			var gotOrder []string
			for _, c := range g.Children(node, &symboldg.TraversalBehavior{Sorting: symboldg.TraversalSortingOrdinalAsc}) {
				gotOrder = append(gotOrder, u.baseOfKey(c.Id))
			}
			if strings.Join(gotOrder, ",") != strings.Join(wantOrder, ",") && sameSet(nodeSet(g.Children(node, nil), u), wantChildren) {
				add("children-order", "ordinal-sorted Children(%s) = %v, insertion order is %v", name, gotOrder, wantOrder)
			}
		}
	}
	// model-free symmetry: an edge is among its source's outgoing edges iff among its target's incoming edges
	for a, outs := range realOut {
		for e := range outs {
			t := e[strings.Index(e, "->")+2 : strings.LastIndex(e, ":")]
			if in, ok := realIn[t]; ok && !in[e] {
				add("out-in-symmetry", "edge %s is listed as outgoing of %s but not as incoming of %s", e, a, t)
			}
		}
	}
	for b, ins := range realIn {
		for e := range ins {
			f := e[:strings.Index(e, "->")]
			if outs, ok := realOut[f]; ok && !outs[e] {
				add("out-in-symmetry", "edge %s is listed as incoming of %s but not as outgoing of %s", e, b, f)
			}
		}
	}
	// FindByKind
	for _, kind := range []common.SymKind{common.SymKindStruct, common.SymKindAlias, common.SymKindEnum, common.SymKindField, common.SymKindBuiltin, common.SymKindSpecialBuiltin} {
		want := map[string]bool{}
		for n, mn := range m.nodes {
			if mn.kind == kind {
				want[n] = true
			}
		}
		if got := nodeSet(g.FindByKind(kind), u); !sameSet(got, want) {
			add("find-by-kind", "FindByKind(%s) = %s, model says %s", kind, setString(got), setString(want))
		}
	}
	return out
}

// ---- per-goroutine order chooser (verifhook site "dependents") --------------------------------------------

type choiceState struct {
	prefix []int
	ns     []int
	pos    int
}

var perG sync.Map // goroutine id -> *choiceState

func goid() int64 {
	var buf [64]byte
	n := runtime.Stack(buf[:], false)
	s := strings.TrimPrefix(string(buf[:n]), "goroutine ")
	id, _ := strconv.ParseInt(s[:strings.IndexByte(s, ' ')], 10, 64)
	return id
}

func chooser(site string, n int) int {
	v, ok := perG.Load(goid())
	if !ok {
		return 0
	}
	st := v.(*choiceState)
	fact := 1
	for i := 2; i <= n; i++ {
		fact *= i
	}
	st.ns = append(st.ns, fact)
	c := 0
	if st.pos < len(st.prefix) {
		c = st.prefix[st.pos]
		if c >= fact {
			core.Harness("replay divergence: order choice %d out of range %d at point %d", c, fact, st.pos)
		}
	}
	st.pos++
	return c
}

// ---- exploration ---------------------------------------------------------------------------------------

// hstep is one step of a history: the operation and the order choices taken at its dependents snapshots.
type hstep struct {
	Op  int   `json:"op"`
	Ord []int `json:"ord,omitempty"`
}

func lessHist(a, b []hstep) bool {
	for k := range a {
		if k >= len(b) {
			return false
		}
		if a[k].Op != b[k].Op {
			return a[k].Op < b[k].Op
		}
		for j := 0; j < len(a[k].Ord) || j < len(b[k].Ord); j++ {
			var x, y int
			if j < len(a[k].Ord) {
				x = a[k].Ord[j]
			}
			if j < len(b[k].Ord) {
				y = b[k].Ord[j]
			}
			if x != y {
				return x < y
			}
		}
	}
	return len(a) < len(b)
}

type explorer struct {
	u        *universe
	ops      []op
	run      *core.Run
	seen     sync.Map // hash -> struct{}
	trans    atomic.Int64
	orders   atomic.Int64
	multiOrd atomic.Int64
	checked  atomic.Int64
	outc     sync.Map // outcome label -> *atomic.Int64
}

func (x *explorer) outcome(k string) {
	v, ok := x.outc.Load(k)
	if !ok {
		v, _ = x.outc.LoadOrStore(k, new(atomic.Int64))
	}
	v.(*atomic.Int64).Add(1)
}

func (x *explorer) build(hist []hstep) (*symboldg.SymbolGraph, *model) {
	g := symboldg.NewSymbolGraph()
	m := newModel()
	id := goid()
	for _, h := range hist {
		if len(h.Ord) > 0 {
			perG.Store(id, &choiceState{prefix: h.Ord})
		}
		x.u.applyReal(&g, x.ops[h.Op])
		if len(h.Ord) > 0 {
			perG.Delete(id)
		}
		x.u.applyModel(m, x.ops[h.Op])
	}
	return &g, m
}

func (x *explorer) histStrings(hist []hstep) []string {
	var s []string
	for _, h := range hist {
		t := x.u.opString(x.ops[h.Op])
		if len(h.Ord) > 0 {
			t += fmt.Sprintf(" [dependents order %v]", h.Ord)
		}
		s = append(s, t)
	}
	return s
}

func opsOf(hist []hstep) []int {
	var o []int
	for _, h := range hist {
		o = append(o, h.Op)
	}
	return o
}

func (x *explorer) features(hist []int, mm mismatch) map[string]string {
	stale := false    // some key was passed under a version other than the one its node currently has
	twoKinds := false // two edges of different kind between the same ordered pair existed
	m := newModel()
	for _, oi := range hist {
		o := x.ops[oi]
		for _, r := range []ref{o.A, o.B} {
			if x.u.isBuiltin(r) {
				continue
			}
			if n, ok := m.nodes[x.u.base(r)]; ok && n.ver != r.V && (o.Kind == opAddEdge || o.Kind == opRemoveEdge || o.Kind == opRemoveNode) {
				stale = true
			}
		}
		x.u.applyModel(m, o)
		for i, e := range m.edges {
			for _, f := range m.edges[i+1:] {
				if e.from == f.from && e.to == f.to && e.kind != f.kind {
					twoKinds = true
				}
			}
		}
	}
	// an edge recorded under one version of an endpoint and later addressed under another
	mixed := false
	seenV := map[string]int{}
	for _, oi := range hist {
		o := x.ops[oi]
		if o.Kind != opAddEdge && o.Kind != opRemoveEdge {
			continue
		}
		for _, r := range []ref{o.A, o.B} {
			if x.u.isBuiltin(r) {
				continue
			}
			if v, ok := seenV[x.u.base(r)]; ok && v != r.V {
				mixed = true
			}
			seenV[x.u.base(r)] = r.V
		}
	}
	last := x.ops[hist[len(hist)-1]]
	return map[string]string{
		"last-op":            [...]string{"AddPrimitive", "AddSpecial", "AddStruct", "AddAlias", "AddEnum", "AddField", "AddEdge", "RemoveEdge", "RemoveNode"}[last.Kind],
		"stale-version-key":  fmt.Sprint(stale || mixed),
		"parallel-edge-kind": fmt.Sprint(twoKinds),
		"depth":              fmt.Sprint(len(hist)),
	}
}

// step applies op oi after hist under every order of every dependents snapshot; it checks every resulting
// state and returns the distinct successor dumps.
func (x *explorer) step(hist []hstep, oi int) []succ {
	var dumps []succ
	var prefixes = [][]int{nil}
	first := true
	for len(prefixes) > 0 {
		prefix := prefixes[len(prefixes)-1]
		prefixes = prefixes[:len(prefixes)-1]
		g, m := x.build(hist)
		st := &choiceState{prefix: prefix}
		id := goid()
		perG.Store(id, st)
		err := x.u.applyReal(g, x.ops[oi])
		perG.Delete(id)
		nodesBefore := len(m.nodes)
		x.u.applyModel(m, x.ops[oi])
		x.outcome(fmt.Sprintf("%s: nodes %d->%d edges=%d", strings.SplitN(x.u.opString(x.ops[oi]), "(", 2)[0], nodesBefore, len(m.nodes), len(m.edges)))
		x.trans.Add(1)
		x.orders.Add(1)
		if first && len(st.ns) > 0 {
			x.multiOrd.Add(1)
		}
		first = false
		for i := len(prefix); i < len(st.ns); i++ {
			for alt := 1; alt < st.ns[i]; alt++ {
				np := make([]int, i+1)
				copy(np, prefix)
				for j := len(prefix); j < i; j++ {
					np[j] = 0
				}
				np[i] = alt
				prefixes = append(prefixes, np)
			}
		}
		full := append(append([]hstep(nil), hist...), hstep{Op: oi, Ord: prefix})
		report := func(mm mismatch) {
			f := x.features(opsOf(full), mm)
			f["dependents-order"] = fmt.Sprint(len(prefix) > 0)
			x.run.Report(core.Violation{Oracle: mm.oracle, Features: f, What: mm.what,
				Case: map[string]any{"keys": x.u.nk, "versions": x.u.nv, "version_set": currentVSet, "anonymous_last_key": anonymousLastKey, "history": x.histStrings(full), "steps": full}})
		}
		if err != nil {
			report(mismatch{"op-error", fmt.Sprintf("%s failed: %v", x.u.opString(x.ops[oi]), err)})
			continue
		}
		d1 := dump(g)
		for _, mm := range x.u.compare(g, m) {
			report(mm)
		}
		x.checked.Add(1)
		// re-inserting an existing node or edge changes nothing
		if k := x.ops[oi].Kind; k <= opAddEdge {
			x.u.applyReal(g, x.ops[oi])
			x.trans.Add(1)
			if d2 := dump(g); d2 != d1 {
				report(mismatch{"reinsert-noop", fmt.Sprintf("repeating %s changed the graph's state", x.u.opString(x.ops[oi]))})
			}
		}
		dumps = append(dumps, succ{d1, prefix})
	}
	return dumps
}

type succ struct {
	dump string
	ord  []int
}

type cand struct {
	hash [16]byte
	hist []hstep
}

func (x *explorer) bfs(maxDepth int, deadline time.Time, stateCap int64) (int, int64) {
	frontier := [][]hstep{{}}
	g0 := symboldg.NewSymbolGraph()
	h0 := sha256.Sum256([]byte(dump(&g0)))
	var k0 [16]byte
	copy(k0[:], h0[:16])
	x.seen.Store(k0, struct{}{})
	var states int64 = 1
	completed := 0
	for depth := 1; depth <= maxDepth && len(frontier) > 0; depth++ {
		var mu sync.Mutex
		var cands []cand
		var next atomic.Int64
		var expired atomic.Bool
		var wg sync.WaitGroup
		for w := 0; w < runtime.NumCPU(); w++ {
			wg.Add(1)
			go func() {
				defer wg.Done()
				var local []cand
				for {
					i := int(next.Add(1)) - 1
					if i >= len(frontier) || expired.Load() {
						break
					}
					hist := frontier[i]
					for oi := range x.ops {
						for _, sc := range x.step(hist, oi) {
							h := sha256.Sum256([]byte(sc.dump))
							var k [16]byte
							copy(k[:], h[:16])
							if _, ok := x.seen.Load(k); ok {
								continue
							}
							local = append(local, cand{k, append(append([]hstep(nil), hist...), hstep{Op: oi, Ord: sc.ord})})
						}
					}
					if i%64 == 0 && time.Now().After(deadline) {
						expired.Store(true)
					}
				}
				mu.Lock()
				cands = append(cands, local...)
				mu.Unlock()
			}()
		}
		wg.Wait()
		if expired.Load() {
			x.run.Cap(fmt.Sprintf("deadline reached while expanding depth %d (%d of %d frontier states expanded); depth %d fully explored", depth, next.Load(), len(frontier), depth-1))
			return completed, states
		}
		sort.Slice(cands, func(i, j int) bool { return lessHist(cands[i].hist, cands[j].hist) })
		frontier = frontier[:0]
		for _, c := range cands {
			if _, loaded := x.seen.LoadOrStore(c.hash, struct{}{}); loaded {
				continue
			}
			frontier = append(frontier, c.hist)
			states++
		}
		completed = depth
		x.run.Set(fmt.Sprintf("new_states_at_depth_%d", depth), len(frontier))
		if states > stateCap && depth < maxDepth {
			x.run.Cap(fmt.Sprintf("state cap %d reached after depth %d", stateCap, depth))
			return completed, states
		}
		if x.run.ViolationCount() >= x.run.MaxViol {
			x.run.Cap(fmt.Sprintf("stopped after depth %d: %d distinct violations already recorded", depth, x.run.ViolationCount()))
			return completed, states
		}
	}
	return completed, states
}

func Main(tier, replay string) {
	run := core.NewRun("C17", tier)
	verifhook.SetChooser(chooser)
	if replay != "" {
		replayCase(run, replay)
		return
	}
	type cfg struct {
		nk, nv, depth int
		vset          int
		anon          bool
	}
	cfgs := []cfg{{2, 2, 3, 0, false}, {2, 2, 2, 1, false}, {2, 2, 2, 2, false}, {2, 2, 2, 0, true}}
	deadline := core.Deadline(tier, 5*time.Minute, 60*time.Minute)
	if tier == "thorough" {
		cfgs = []cfg{{3, 2, 3, 0, false}, {2, 2, 4, 0, false}, {3, 1, 5, 0, false}, {2, 2, 3, 1, false}, {2, 2, 3, 2, false}, {2, 2, 3, 0, true}}
	}
	if e := os.Getenv("VERIF_C17_CFG"); e != "" { // e.g. "2:2:4,3:1:5" (keys:versions:depth) for experiments
		cfgs = nil
		for _, part := range strings.Split(e, ",") {
			var c cfg
			fmt.Sscanf(part, "%d:%d:%d", &c.nk, &c.nv, &c.depth)
			cfgs = append(cfgs, c)
		}
	}
	var bounds []string
	for _, c := range cfgs {
		versions, currentVSet, anonymousLastKey = versionSets[c.vset], c.vset, c.anon
		u := newUniverse(c.nk, c.nv)
		x := &explorer{u: u, ops: u.allOps(), run: run}
		done, states := x.bfs(c.depth, deadline, 3_000_000)
		run.AddStates(states)
		run.AddTransitions(x.trans.Load())
		run.AddValidated(x.checked.Load())
		x.outc.Range(func(k, v any) bool { run.Outcome(k.(string), v.(*atomic.Int64).Load()); return true })
		run.Add("remove_orders_explored", x.orders.Load())
		run.Add("transitions_with_order_choice", x.multiOrd.Load())
		bounds = append(bounds, fmt.Sprintf("%d AST keys x %d file versions ("+versionSetNames[c.vset]+") + builtins int,error; %d operations; all histories to depth %d (requested %d), de-duplicated on the full private state; all dependents orders of every RemoveNode", c.nk, c.nv, len(x.ops), done, c.depth)+map[bool]string{true: "; the last key is a nameless declaration (embedded field)", false: ""}[c.anon])
		run.Sample(map[string]any{"keys": c.nk, "versions": c.nv, "history": x.histStrings([]hstep{{Op: 2}, {Op: len(x.ops) - 2}, {Op: 30 % len(x.ops)}})})
	}
	run.Bound = strings.Join(bounds, " | ")
	run.Rule = "state = canonical dump of SymbolGraph's private maps (nodes, lookupKeys, edges with ordinal ranks, deps, revDeps); transition = one public-API operation applied to the real graph after replaying the shortest history on a fresh instance; validated = transitions after which Get/Exists/GetEdges(out,in,per kind)/Children/Parents/Descendants/FindByKind were compared with the set model, plus out/in symmetry and re-insert no-op"
	run.Assumptions = []string{"node payloads are a fixed function of (key, version, kind) in this harness", "edge ordinals only matter relative to each other", "sets, not multiplicities, are compared for Children/Parents"}
	run.Finish()
}

func replayCase(run *core.Run, path string) {
	_, v := core.LoadReplay(path)
	m, _ := v.Case.(map[string]any)
	nk := int(m["keys"].(float64))
	nv := 2
	if f, ok := m["versions"].(float64); ok {
		nv = int(f)
	}
	if a, ok := m["anonymous_last_key"].(bool); ok {
		anonymousLastKey = a
	}
	if f, ok := m["version_set"].(float64); ok && int(f) < len(versionSets) {
		versions, currentVSet = versionSets[int(f)], int(f)
	}
	u := newUniverse(nk, nv)
	x := &explorer{u: u, ops: u.allOps(), run: run}
	var hist []hstep
	for _, o := range m["steps"].([]any) {
		sm := o.(map[string]any)
		h := hstep{Op: int(sm["op"].(float64))}
		if ol, ok := sm["ord"].([]any); ok {
			for _, c := range ol {
				h.Ord = append(h.Ord, int(c.(float64)))
			}
		}
		hist = append(hist, h)
	}
	x.step(hist[:len(hist)-1], hist[len(hist)-1].Op)
	run.AddStates(1)
	run.AddTransitions(x.trans.Load())
	run.AddValidated(x.checked.Load())
	run.Sample(x.histStrings(hist))
	run.Bound = "replay of one history (all dependents orders of the last operation)"
	run.Finish()
}
