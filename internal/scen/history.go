package scen

import (
	"crypto/sha256"
	"encoding/hex"
	"encoding/json"
	"fmt"
	"sort"

	"github.com/gopher-fleece/gleece/v2/common"
	"github.com/gopher-fleece/gleece/v2/core/pipeline"
	"github.com/gopher-fleece/gleece/v2/core/validators/diagnostics"
	"github.com/gopher-fleece/gleece/v2/definitions"
	"github.com/gopher-fleece/gleece/v2/graphs/symboldg"
)

// HistStep is what one operation of a history on one pipeline value produced.
type HistStep struct {
	Op    string `json:"op"` // G | V | I | R
	Err   string `json:"err,omitempty"`
	Meta  string `json:"meta,omitempty"`  // hash of the (order-normalised) flattened metadata (I, R)
	Diags string `json:"diags,omitempty"` // hash of the sorted diagnostic multiset (V)
	Graph string `json:"graph"`           // hash of the node and edge sets seen through the public API, after the op
	Nodes int    `json:"nodes"`
	Edges int    `json:"edges"`
}

type HistResult struct {
	Ops   []string   `json:"ops"`
	Steps []HistStep `json:"steps"`
	Panic string     `json:"panic,omitempty"`
}

var allKinds = []common.SymKind{common.SymKindUnknown, common.SymKindPackage, common.SymKindStruct, common.SymKindController, common.SymKindInterface,
	common.SymKindAlias, common.SymKindComposite, common.SymKindTypeParam, common.SymKindEnum, common.SymKindEnumValue, common.SymKindFunction,
	common.SymKindReceiver, common.SymKindField, common.SymKindParameter, common.SymKindVariable, common.SymKindConstant, common.SymKindReturnType,
	common.SymKindBuiltin, common.SymKindSpecialBuiltin}

func hashOf(v any) string {
	b, _ := json.Marshal(v)
	h := sha256.Sum256(b)
	return hex.EncodeToString(h[:8])
}

func graphDigest(g symboldg.SymbolGraphBuilder) (string, int, int) {
	var nodes, edges []string
	for _, n := range g.FindByKind(allKinds...) {
		nodes = append(nodes, n.Id.Id()+"|"+string(n.Kind))
		for k, e := range g.GetEdges(n.Id, nil) {
			if e.Edge.From.BaseId() == n.Id.BaseId() { // count each edge once, at its source
				edges = append(edges, k+"|"+string(e.Edge.Kind)+"|"+e.Edge.To.Id())
			}
		}
	}
	sort.Strings(nodes)
	sort.Strings(edges)
	return hashOf([]any{nodes, edges}), len(nodes), len(edges)
}

// MetaDigest hashes flattened metadata with the order of the import lists (built from sets) normalised.
func MetaDigest(m pipeline.GleeceFlattenedMetadata) string {
	imp := map[string][]string{}
	for k, v := range m.Imports {
		c := append([]string(nil), v...)
		sort.Strings(c)
		imp[k] = c
	}
	return hashOf([]any{imp, m.Flat, m.Models, m.PlainErrorPresent})
}

func diagDigest(ds []diagnostics.EntityDiagnostic) string {
	var flat []Diag
	for _, e := range ds {
		flatten("", e, &flat)
	}
	var keys []string
	for _, d := range flat {
		keys = append(keys, fmt.Sprintf("%s|%s|%d|%s|%d:%d-%d:%d", d.Entity, d.Code, d.Severity, d.File, d.SL, d.SC, d.EL, d.EC)) // message text not compared
	}
	sort.Strings(keys)
	return hashOf(keys)
}

func runHistory(cfg *definitions.GleeceConfig, ops []string) (hr HistResult) {
	hr.Ops = ops
	defer func() {
		if r := recover(); r != nil {
			hr.Panic = fmt.Sprint(r)
		}
	}()
	pipe, err := pipeline.NewGleecePipeline(cfg)
	if err != nil {
		hr.Panic = "pipeline construction failed: " + err.Error()
		return
	}
	for _, op := range ops {
		st := HistStep{Op: op}
		switch op {
		case "G":
			if err := pipe.GenerateGraph(); err != nil {
				st.Err = err.Error()
			}
		case "V":
			d, err := pipe.Validate()
			if err != nil {
				st.Err = err.Error()
			}
			st.Diags = diagDigest(d)
		case "I":
			m, err := pipe.GenerateIntermediate()
			if err != nil {
				st.Err = err.Error()
			} else {
				st.Meta = MetaDigest(m)
			}
		case "R":
			m, err := pipe.Run()
			if err != nil {
				st.Err = err.Error()
			} else {
				st.Meta = MetaDigest(m)
			}
		}
		st.Graph, st.Nodes, st.Edges = graphDigest(pipe.Graph())
		hr.Steps = append(hr.Steps, st)
	}
	return
}
