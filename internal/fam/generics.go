package fam

import (
	"fmt"
	"strings"

	"verif/internal/scen"
)

// Generics builds a small family of generic-struct usages (instantiations with built-in arguments) at return,
// body and field sites; whatever document is written for them must be closed (C08).
func Generics() Family {
	decl := "type Page§[T any] struct {\n\tItems []T `json:\"items\"`\n\tNext *T `json:\"next\"`\n}\n\ntype Pair§[A any, B any] struct {\n\tL A `json:\"l\"`\n\tR B `json:\"r\"`\n}\n"
	shapes := []string{"Page§[int]", "Page§[string]", "Pair§[string, int]", "[]Page§[int]", "map[string]Page§[bool]"}
	sites := []string{"return", "body", "field", "two-instantiations"}
	var cases []scen.Case
	n := 0
	for _, sh := range shapes {
		for _, site := range sites {
			id := fmt.Sprintf("r%04d", n)
			n++
			sub := func(s string) string { return strings.ReplaceAll(s, "§", id) }
			t := sub(sh)
			d := sub(decl)
			m := scen.Method{Name: "Op" + id, Verb: "POST", Route: scen.S("/op")}
			switch site {
			case "return":
				m.Ret = t
			case "body":
				m.Params = []scen.Param{{Name: "b", Type: t, In: "Body"}}
			case "field":
				d += "\ntype W" + id + " struct {\n\tF " + t + " `json:\"f\"`\n\tN int `json:\"n\"`\n}\n"
				m.Ret = "W" + id
			case "two-instantiations":
				d += "\ntype W" + id + " struct {\n\tF " + t + " `json:\"f\"`\n\tG Page" + id + "[float64] `json:\"g\"`\n}\n"
				m.Ret = "W" + id
			}
			ctl := scen.Controller{Name: "C" + id, Pkg: id, Prefix: scen.S("/" + id), Tag: scen.S("T" + id), Methods: []scen.Method{m}}
			cases = append(cases, scen.Case{ID: id, Unit: scen.Unit{Controllers: []scen.Controller{ctl}, Decls: map[string]string{id: d}},
				Features: map[string]string{"family": "generics", "shape": sh, "site": site}, Desc: map[string]any{"controller": ctl, "decls": d}})
		}
	}
	return Family{Name: "generics", Cases: cases, BaseCfg: DefaultCfg, PackSize: 1}
}
