// Package c03 decides C03 (no controller code runs unless the route's effective security approved it) by
// enumerating security shapes at method, controller and default level, compiling the five generated routers with
// an instrumented authorization callback whose verdicts are scripted, and exploring, for every route and request
// kind, every vector of approve / refuse-401 / refuse-403-with-payload verdicts (choice DFS over callback
// invocations). A static companion checks that every generated handler starts with the guarded authorize() call.
package c03

import (
	"fmt"
	"os"
	"strings"
	"sync"
	"time"

	"verif/internal/core"
	"verif/internal/rast"
	"verif/internal/rt"
	"verif/internal/scen"
)

type shape struct {
	Name string
	Secs []scen.Sec
}

func sec(s string, scopes ...string) scen.Sec {
	if scopes == nil {
		scopes = []string{}
	}
	return scen.Sec{Scheme: s, Scopes: scopes}
}

var methodShapes = []shape{
	{"none", nil},
	{"s1[a]", []scen.Sec{sec("s1", "a")}},
	{"s1[a]|s2[b]", []scen.Sec{sec("s1", "a"), sec("s2", "b")}},
	{"s1[a]|s2[b]|s1[]", []scen.Sec{sec("s1", "a"), sec("s2", "b"), sec("s1")}},
	{"s2[a,b]", []scen.Sec{sec("s2", "a", "b")}},
	{"s1(no properties)", []scen.Sec{{Scheme: "s1", Scopes: []string{}, NoProps: true}}},
}

var ctlShapes = []shape{
	{"none", nil},
	{"s1[c]", []scen.Sec{sec("s1", "c")}},
	{"s2[c]|s1[d]", []scen.Sec{sec("s2", "c"), sec("s1", "d")}},
	{"s2(no properties)", []scen.Sec{{Scheme: "s2", Scopes: []string{}, NoProps: true}}},
}

func effective(m, c []scen.Sec, def *scen.Sec) []scen.Sec {
	if len(m) > 0 {
		return m
	}
	if len(c) > 0 {
		return c
	}
	if def != nil {
		return []scen.Sec{*def}
	}
	return nil
}

type info struct {
	M, C shape
}

func buildCases() ([]scen.Case, map[string]info) {
	var cases []scen.Case
	inf := map[string]info{}
	n := 0
	for _, m := range methodShapes {
		for _, c := range ctlShapes {
			id := fmt.Sprintf("a%04d", n)
			n++
			ctl := scen.Controller{Name: "C" + id, Pkg: id, Prefix: scen.S("/" + id), Tag: scen.S("T" + id), Security: c.Secs}
			opq := scen.Method{Name: "OpQ" + id, Verb: "GET", Route: scen.S("/q"), Security: m.Secs, Params: []scen.Param{{Name: "n", Type: "int", In: "Query"}}, Ret: "string"}
			opb := scen.Method{Name: "OpB" + id, Verb: "POST", Route: scen.S("/b"), Security: m.Secs, Params: []scen.Param{{Name: "b", Type: "Body" + id, In: "Body"}}}
			inh := scen.Method{Name: "Inh" + id, Verb: "GET", Route: scen.S("/inherit"), Hidden: true}
			// a method whose name (hence operationId) is the same in every controller of the project, with this controller's
			// own security: nothing keyed by the bare method name may leak one controller's security into another's
			lst := scen.Method{Name: "List", Verb: "GET", Route: scen.S("/list"), Security: m.Secs, Ret: "string"}
			ctl.Methods = []scen.Method{opq, opb, inh, lst}
			decl := "type Body" + id + " struct {\n\tA string `json:\"a\" validate:\"required\"`\n}\n"
			cases = append(cases, scen.Case{ID: id, Unit: scen.Unit{Controllers: []scen.Controller{ctl}, Decls: map[string]string{id: decl}},
				Features: map[string]string{"method": m.Name, "controller": c.Name}, Desc: ctl})
			inf[id] = info{m, c}
		}
	}
	return cases, inf
}

func instrument(c scen.Case) scen.Unit {
	u := c.Unit
	cs := append([]scen.Controller(nil), u.Controllers...)
	for i := range cs {
		ms := append([]scen.Method(nil), cs[i].Methods...)
		for j := range ms {
			ret := "nil"
			if ms[j].Ret != "" {
				ret = `"ok", nil`
			}
			ms[j].Body = rt.CallBody(cs[i].Name+"."+ms[j].Name, ms[j].Params, ret)
		}
		cs[i].Methods = ms
	}
	return scen.Unit{Controllers: cs, Decls: u.Decls, Imports: map[string][]string{cs[0].Pkg: rt.RtImports}}
}

type reqMeta struct {
	Method   string // OpQ | OpB | Inh
	Kind     string // valid | ill-typed | missing
	Verdicts []int
}

func vectors(k int) [][]int {
	if k == 0 {
		return [][]int{nil}
	}
	var out [][]int
	var rec func(cur []int)
	rec = func(cur []int) {
		if len(cur) == k {
			out = append(out, append([]int(nil), cur...))
			return
		}
		for v := 0; v < 3; v++ {
			rec(append(cur, v))
		}
	}
	rec(nil)
	return out
}

// Space exposes the security scenarios with requests for every verdict vector under the default-less configuration (used by C12).
func Space() ([]scen.Case, func(scen.Case) scen.Unit, func(scen.Case) []rt.Request) {
	cases, inf := buildCases()
	reqsFor := func(c scen.Case) []rt.Request {
		in := inf[c.ID]
		var out []rt.Request
		n := 0
		add := func(verb, url, body, ct string, k int) {
			for _, vec := range vectors(k) {
				out = append(out, rt.Request{ID: fmt.Sprintf("%s#%d", c.ID, n), Verb: verb, URL: url, Body: body, ContentType: ct, Verdicts: vec})
				n++
			}
		}
		kOp := len(effective(in.M.Secs, in.C.Secs, nil))
		base := "/" + c.ID
		add("GET", base+"/q?n=5", "", "", kOp)
		add("GET", base+"/q?n=abc", "", "", kOp)
		add("GET", base+"/q", "", "", kOp)
		add("POST", base+"/b", `{"a":"x"}`, "application/json", kOp)
		add("POST", base+"/b", `{"a":5}`, "application/json", kOp)
		add("POST", base+"/b", ``, "application/json", kOp)
		add("GET", base+"/inherit", "", "", len(effective(nil, in.C.Secs, nil)))
		add("GET", base+"/list", "", "", kOp)
		return out
	}
	return cases, instrument, reqsFor
}

func Main(tier, replay string) {
	run := core.NewRun("C03", tier)
	scratch := scen.MkScratch("c03")
	defer os.RemoveAll(scratch)
	deadline := core.Deadline(tier, 10*time.Minute, 40*time.Minute)
	cases, inf := buildCases()
	if replay != "" {
		_, v := core.LoadReplay(replay)
		id, _ := v.Case.(map[string]any)["id"].(string)
		var sel []scen.Case
		for _, c := range cases {
			if c.ID == id {
				sel = append(sel, c)
			}
		}
		cases = sel
	}
	d2 := sec("s2", "d")
	defaults := []struct {
		Name string
		Def  *scen.Sec
	}{{"default=none", nil}, {"default=s2[d]", &d2}}
	executions, invoked, refused, unprocessable := 0, 0, 0, 0
	for _, df := range defaults {
		df := df
		metas := map[string]reqMeta{}
		var metaMu sync.Mutex
		reqsFor := func(c scen.Case) []rt.Request {
			metaMu.Lock()
			defer metaMu.Unlock()
			in := inf[c.ID]
			var out []rt.Request
			n := 0
			add := func(method, kind, verb, url, body, ct string, k int) {
				for _, vec := range vectors(k) {
					id := fmt.Sprintf("%s#%d", c.ID, n)
					n++
					out = append(out, rt.Request{ID: id, Verb: verb, URL: url, Body: body, ContentType: ct, Verdicts: vec})
					metas[id] = reqMeta{method, kind, vec}
				}
			}
			kOp := len(effective(in.M.Secs, in.C.Secs, df.Def))
			kInh := len(effective(nil, in.C.Secs, df.Def))
			base := "/" + c.ID
			add("OpQ", "valid", "GET", base+"/q?n=5", "", "", kOp)
			add("OpQ", "ill-typed", "GET", base+"/q?n=abc", "", "", kOp)
			add("OpQ", "missing", "GET", base+"/q", "", "", kOp)
			add("OpB", "valid", "POST", base+"/b", `{"a":"x"}`, "application/json", kOp)
			add("OpB", "ill-typed", "POST", base+"/b", `{"a":5}`, "application/json", kOp)
			add("OpB", "missing", "POST", base+"/b", ``, "application/json", kOp)
			add("Inh", "valid", "GET", base+"/inherit", "", "", kInh)
			add("List", "valid", "GET", base+"/list", "", "", kOp)
			// the same valid requests delivered with a context that is already cancelled / past its deadline: the
			// authorization decision may not depend on it
			for _, cs := range []string{"cancelled", "deadline"} {
				from := len(out)
				add("OpQ", "valid", "GET", base+"/q?n=5", "", "", kOp)
				add("Inh", "valid", "GET", base+"/inherit", "", "", kInh)
				for i := from; i < len(out); i++ {
					out[i].CtxState = cs
				}
			}
			return out
		}
		patch := map[string]any{}
		if df.Def != nil {
			patch["openapiGeneratorConfig.defaultSecurity"] = map[string]any{"name": df.Def.Scheme, "scopes": df.Def.Scopes}
		}
		crs := rt.RunCases(scratch, cases, 8, 4, instrument, reqsFor, patch, rt.Flags{}, deadline)
		staticDone := map[*rt.Run]bool{}
		for _, cr := range crs {
			c := cr.Case
			feat := func(extra ...string) map[string]string {
				f := map[string]string{"config": df.Name}
				for k, v := range c.Features {
					f[k] = v
				}
				for i := 0; i+1 < len(extra); i += 2 {
					f[extra[i]] = extra[i+1]
				}
				return f
			}
			if cr.Run == nil {
				run.Cap("deadline reached: scenario " + c.ID + " not run")
				continue
			}
			if cr.Run.Failed() {
				run.Report(core.Violation{Oracle: "scenario-builds-and-registers", Features: feat(), What: "the scenario could not be served: " + cr.Run.Worker.FailureSummary() + " " + firstLines(cr.Run.BuildErr, 3) + fmt.Sprint(cr.Run.RegErr), Case: c})
				continue
			}
			run.AddStates(1)
			in := inf[c.ID]
			// static companion: the guarded authorize() call opens every handler that has security
			if !staticDone[cr.Run] {
				staticDone[cr.Run] = true
				for _, e := range rt.Engines {
					rf, err := rast.Parse(cr.Run.Routes[e])
					if err != nil {
						run.Report(core.Violation{Oracle: "routes-file-parses", Features: map[string]string{"engine": e}, What: err.Error(), Case: c})
						continue
					}
					for _, h := range rf.Handlers {
						run.AddValidated(1)
						if !h.Authorize || !h.AuthFirst {
							run.Report(core.Violation{Oracle: "handler-starts-with-guarded-authorize", Features: map[string]string{"engine": e, "config": df.Name}, What: fmt.Sprintf("%s handler %s %s does not start with `authErr := authorize(...)` followed by `if authErr != nil { ...; return }`", e, h.Verb, h.Path), Case: c})
						}
					}
				}
			}
			for _, rq := range cr.Reqs {
				m := metas[rq.ID]
				eff := effective(in.M.Secs, in.C.Secs, df.Def)
				if m.Method == "Inh" {
					eff = effective(nil, in.C.Secs, df.Def)
				}
				// the reference evaluation: alternatives in order, one check each, first approval wins
				var wantAuth []string
				approved := len(eff) == 0
				lastRefusal := -1
				for i, alt := range eff {
					v := 0
					if i < len(m.Verdicts) {
						v = m.Verdicts[i]
					}
					wantAuth = append(wantAuth, fmt.Sprintf("%s[%s]=%d", alt.Scheme, strings.Join(alt.Scopes, ","), v))
					if v == 0 {
						approved = true
						break
					}
					lastRefusal = v
				}
				for _, e := range rt.Engines {
					resp := cr.Run.Results[e][rq.ID]
					executions++
					run.AddTransitions(1)
					run.AddValidated(1)
					names, _, auths := resp.Calls()
					f := func(extra ...string) map[string]string {
						return feat(append([]string{"engine", e, "route", m.Method, "request", m.Kind}, extra...)...)
					}
					cs := map[string]any{"id": c.ID, "scenario": c.Desc, "config": df.Name, "request": rq, "engine": e}
					what := func(s string) string {
						return fmt.Sprintf("%s %s %s verdicts=%v: %s (status %d, events %v)", e, rq.Verb, rq.URL, m.Verdicts, s, resp.Status, resp.Events)
					}
					if resp.Panic != "" {
						run.Report(core.Violation{Oracle: "request-does-not-panic", Features: f(), What: what("panic " + resp.Panic), Case: cs})
						continue
					}
					if strings.Join(auths, ";") != strings.Join(wantAuth, ";") {
						run.Report(core.Violation{Oracle: "callback-asked-for-the-effective-alternatives-in-order", Features: f(), What: what(fmt.Sprintf("the callback was asked %v, the effective security evaluates as %v", auths, wantAuth)), Case: cs})
						continue
					}
					if len(names) > 0 && !approved {
						run.Report(core.Violation{Oracle: "controller-runs-only-after-approval", Features: f(), What: what("the controller method ran although no alternative was approved"), Case: cs})
						continue
					}
					// authorization events must precede the controller call
					seenCall := false
					for _, ev := range resp.Events {
						if strings.HasPrefix(ev, "CALL ") {
							seenCall = true
						} else if strings.HasPrefix(ev, "AUTH ") && seenCall {
							run.Report(core.Violation{Oracle: "controller-runs-only-after-approval", Features: f(), What: what("an authorization check ran after the controller method"), Case: cs})
						}
					}
					if !approved {
						refused++
						wantStatus := map[int]int{1: 401, 2: 403}[lastRefusal]
						okStatus := false
						for _, v := range m.Verdicts[:len(wantAuth)] {
							if resp.Status == map[int]int{1: 401, 2: 403}[v] {
								okStatus = true
							}
						}
						if !okStatus {
							run.Report(core.Violation{Oracle: "refusal-status-is-returned", Features: f(), What: what(fmt.Sprintf("every alternative was refused; the response must carry a refusal's status (last refusal: %d)", wantStatus)), Case: cs})
						} else if resp.Status == 403 && !strings.Contains(resp.Body, `"custom":"payload"`) {
							run.Report(core.Violation{Oracle: "refusal-payload-is-returned", Features: f(), What: what("the 403 refusal carried a custom payload but the body is " + trunc(resp.Body)), Case: cs})
						}
						continue
					}
					// approved (or no security at all)
					switch m.Kind {
					case "valid":
						invoked++
						if len(names) != 1 {
							run.Report(core.Violation{Oracle: "approved-valid-request-reaches-controller", Features: f(), What: what("an approved, well-formed request did not reach the controller method exactly once"), Case: cs})
						} else if len(eff) > 0 && resp.CtxState() != "none" && resp.CtxState() != "approved" {
							run.Report(core.Violation{Oracle: "context-from-callback-reaches-controller", Features: f(), What: what("context state " + resp.CtxState()), Case: cs})
						}
					default:
						unprocessable++
						if len(names) != 0 || resp.Status != 422 {
							run.Report(core.Violation{Oracle: "approved-invalid-request-is-422-without-invocation", Features: f(), What: what("an approved but " + m.Kind + " request must be answered 422 without invoking the method"), Case: cs})
						}
					}
				}
			}
		}
	}
	run.Set("executions", executions)
	run.Set("executions_invoking_controller", invoked)
	run.Set("executions_all_refused", refused)
	run.Set("executions_approved_but_422", unprocessable)
	run.Outcome("invoked", int64(invoked))
	run.Outcome("refused", int64(refused))
	run.Outcome("422", int64(unprocessable))
	run.Sample(map[string]any{"scenario": cases[len(cases)/2].Desc, "request": "GET /<id>/q?n=5", "verdicts": []int{1, 0}})
	run.Bound = fmt.Sprintf("%d method-level x %d controller-level security shapes x 2 default configurations; 4 routes per scenario (query, body, hidden/inheriting, a method named alike in every controller) x request kinds {valid, ill-typed, missing} x every verdict vector in {approve, 401, 403+payload}^k (k = number of effective alternatives <= 3) x 5 engines", len(methodShapes), len(ctlShapes))
	run.Rule = "state = (scenario, default config, route, request kind, verdict vector, engine); transition = one HTTP request served in-process by a compiled generated router with the scripted callback; validated = executions whose AUTH/CALL event log, status and body were compared with the effective-security model, plus handlers checked statically for the leading guarded authorize()"
	run.Assumptions = []string{"which refusal wins when several alternatives refuse differently is not judged"}
	os.RemoveAll(scratch)
	run.Finish()
}

func trunc(s string) string {
	if len(s) > 120 {
		return s[:120]
	}
	return s
}

func firstLines(s string, n int) string {
	l := strings.Split(strings.TrimSpace(s), "\n")
	if len(l) > n {
		l = l[:n]
	}
	return strings.Join(l, " | ")
}
