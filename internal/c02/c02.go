// Package c02 decides C02 (the generated router serves exactly the annotated routes and dispatches correctly) by
// compiling, for every accepted scenario of the route-layout families, the five generated routers together with
// instrumented controllers and sending every (verb, path) of a bounded request set to each of them in-process.
package c02

import (
	"fmt"
	"os"
	"path/filepath"
	"regexp"
	"sort"
	"strings"
	"time"

	"verif/internal/c01"
	"verif/internal/core"
	"verif/internal/rt"
	"verif/internal/scen"
)

var multiSlash = regexp.MustCompile(`/+`)
var paramRe = regexp.MustCompile(`\{[^{}/]+\}`)

type route struct {
	Ctl, Method, Verb string
	Template          string // documented (collapsed) path template
}

func routesOf(c scen.Case) []route {
	var out []route
	for _, ctl := range c.Unit.Controllers {
		if ctl.NoEmbed {
			continue
		}
		prefix := ""
		if ctl.Prefix != nil {
			prefix = *ctl.Prefix
		}
		for _, m := range ctl.Methods {
			if m.Verb == "" || m.Route == nil || m.Recv != "" {
				continue
			}
			out = append(out, route{ctl.Name, m.Name, m.Verb, multiSlash.ReplaceAllString(prefix+*m.Route, "/")})
		}
	}
	return out
}

func instantiate(t string) string { return paramRe.ReplaceAllString(t, "v1") }

func matches(template, path string) bool {
	ts, ps := strings.Split(template, "/"), strings.Split(path, "/")
	if len(ts) != len(ps) {
		return false
	}
	for i := range ts {
		if paramRe.MatchString(ts[i]) && ts[i] == paramRe.FindString(ts[i]) {
			if ps[i] == "" {
				return false
			}
			continue
		}
		if paramRe.MatchString(ts[i]) {
			// a parameter inside a segment (v{id}): the literal parts must match, the parameter takes at least one character
			var sb strings.Builder
			sb.WriteString("^")
			last := 0
			for _, loc := range paramRe.FindAllStringIndex(ts[i], -1) {
				sb.WriteString(regexp.QuoteMeta(ts[i][last:loc[0]]) + "[^/]+")
				last = loc[1]
			}
			sb.WriteString(regexp.QuoteMeta(ts[i][last:]) + "$")
			if !regexp.MustCompile(sb.String()).MatchString(ps[i]) {
				return false
			}
			continue
		}
		if ts[i] != ps[i] {
			return false
		}
	}
	return true
}

// instrument gives every method a recording body.
func instrument(c scen.Case) scen.Unit {
	u := c.Unit
	cs := make([]scen.Controller, len(u.Controllers))
	copy(cs, u.Controllers)
	imports := map[string][]string{}
	for k, v := range u.Imports {
		imports[k] = v
	}
	for i := range cs {
		ms := make([]scen.Method, len(cs[i].Methods))
		copy(ms, cs[i].Methods)
		for j := range ms {
			if ms[j].Err == "-" {
				continue
			}
			ret := "nil"
			if ms[j].Ret != "" {
				ret = "*new(" + ms[j].Ret + "), nil"
			}
			ms[j].Body = rt.CallBody(cs[i].Name+"."+ms[j].Name, ms[j].Params, ret)
		}
		cs[i].Methods = ms
		imports[cs[i].Pkg] = append(append([]string(nil), imports[cs[i].Pkg]...), rt.RtImports...)
	}
	return scen.Unit{Controllers: cs, Decls: u.Decls, Imports: imports}
}

func Main(tier, replay string) {
	run := core.NewRun("C02", tier)
	scratch := scen.MkScratch("c02")
	defer os.RemoveAll(scratch)
	deadline := core.Deadline(tier, 12*time.Minute, 60*time.Minute)
	var cases []scen.Case
	for _, c := range c01.AllCases(tier) {
		f := c.Features
		if f["prefix"] == "§" || f["route"] == "§" || strings.Contains(f["deviations"], "no-leading-slash") || strings.Contains(f["deviations"], "same-name-as-A") {
			continue // a slash-less full route has no well-defined documented path; same-named controllers cannot be imported together
		}
		glued := false
		for _, ro := range routesOf(c) {
			if regexp.MustCompile(`\}[^/]`).MatchString(ro.Template) {
				glued = true // a parameter glued to a literal inside one segment cannot be expressed by every engine
			}
		}
		if glued {
			continue
		}
		if tier != "thorough" && f["family"] != "M" && !(f["verb"] == "GET" || f["hidden"] == "false" && f["deprecated"] == "false") {
			continue
		}
		cases = append(cases, c)
	}
	if replay != "" {
		_, v := core.LoadReplay(replay)
		id, _ := v.Case.(map[string]any)["id"].(string)
		var sel []scen.Case
		for _, c := range cases {
			if c.ID == id {
				sel = append(sel, c)
			}
		}
		if len(sel) == 0 {
			core.Harness("replay: scenario %q not in the enumeration", id)
		}
		cases = sel
	}
	verbs := []string{"GET", "POST", "PUT", "DELETE", "PATCH", "HEAD", "OPTIONS"} // HEAD and OPTIONS can never be annotated: they must not be served
	packSize := 50
	var packs [][]scen.Case
	for i := 0; i < len(cases); i += packSize {
		packs = append(packs, cases[i:min(i+packSize, len(cases))])
	}
	type packOut struct {
		cases []scen.Case
		run   *rt.Run
		reqs  map[string]rt.Request
	}
	outs := make([]*packOut, len(packs))
	var runPack func(cs []scen.Case, tag string) []*packOut
	runPack = func(cs []scen.Case, tag string) []*packOut {
		var units []scen.Unit
		var reqs []rt.Request
		reqMap := map[string]rt.Request{}
		for _, c := range cs {
			units = append(units, instrument(c))
			seen := map[string]bool{}
			n := 0
			for _, r := range routesOf(c) {
				base := instantiate(r.Template)
				paths := []string{base, base + "/zz"}
				if i := strings.LastIndexByte(base, '/'); i > 0 {
					paths = append(paths, base[:i])
				}
				paths = append(paths, base+"x")
				for _, p := range paths {
					for _, v := range verbs {
						if seen[v+" "+p] {
							continue
						}
						seen[v+" "+p] = true
						rq := rt.Request{ID: fmt.Sprintf("%s#%d", c.ID, n), Verb: v, URL: p}
						n++
						reqs = append(reqs, rq)
						reqMap[rq.ID] = rq
					}
				}
			}
		}
		dir := filepath.Join(scratch, tag)
		r := rt.RunPack(dir, units, nil, rt.Flags{}, reqs)
		os.RemoveAll(dir)
		failed := !r.Worker.Accepted() || r.BuildErr != "" || len(r.Routes) < 5 || len(r.RegErr) > 0
		if failed && len(cs) > 1 {
			mid := len(cs) / 2
			return append(runPack(cs[:mid], tag+"a"), runPack(cs[mid:], tag+"b")...)
		}
		return []*packOut{{cs, r, reqMap}}
	}
	results := make([][]*packOut, len(packs))
	scen.Pool(8, len(packs), func(i int) {
		if time.Now().After(deadline) {
			return
		}
		results[i] = runPack(packs[i], fmt.Sprintf("pack%03d", i))
	})
	_ = outs
	served, notServed, skippedPacks := 0, 0, 0
	for i := range results {
		if results[i] == nil {
			skippedPacks++
			continue
		}
		for _, po := range results[i] {
			r := po.run
			if !r.Worker.Accepted() || len(r.Routes) < 5 {
				for _, c := range po.cases {
					run.Outcome("not accepted for routes: "+firstWord(r.Worker.FailureSummary()), 1)
					_ = c
				}
				continue
			}
			if r.BuildErr != "" {
				for _, c := range po.cases {
					run.Report(core.Violation{Oracle: "generated-routers-compile", Features: map[string]string{"family": c.Features["family"]}, What: "the generated routers do not compile: " + firstLines(r.BuildErr, 4), Case: c})
				}
				continue
			}
			for _, c := range po.cases {
				rs := routesOf(c)
				run.AddStates(1)
				for _, e := range rt.Engines {
					feat := func(extra ...string) map[string]string {
						f := map[string]string{"engine": e}
						for k, v := range c.Features {
							f[k] = v
						}
						for j := 0; j+1 < len(extra); j += 2 {
							f[extra[j]] = extra[j+1]
						}
						return f
					}
					if msg, bad := r.RegErr[e]; bad {
						run.Report(core.Violation{Oracle: "routes-register-without-panic", Features: feat(), What: e + ".RegisterRoutes panicked: " + msg, Case: c})
						continue
					}
					for id, rq := range po.reqs {
						if !strings.HasPrefix(id, c.ID+"#") {
							continue
						}
						resp := r.Results[e][id]
						run.AddTransitions(1)
						run.AddValidated(1)
						var want []string
						for _, ro := range rs {
							if ro.Verb == rq.Verb && matches(ro.Template, rq.URL) {
								want = append(want, ro.Ctl+"."+ro.Method)
							}
						}
						// a request for exactly the text of a parameter-less annotated path is addressed to that route, even if a
						// parameterised sibling could match it too
						overlapShape := ""
						for li, ro := range rs {
							if ro.Verb == rq.Verb && !strings.Contains(ro.Template, "{") && ro.Template == strings.SplitN(rq.URL, "?", 2)[0] && len(want) > 1 {
								want = []string{ro.Ctl + "." + ro.Method}
								overlapShape = "literal-route-declared-before-its-overlapping-parameter-routes"
								for oi, other := range rs {
									if oi < li && other.Verb == rq.Verb && matches(other.Template, rq.URL) {
										// registration follows declaration order, and first-match engines then prefer the earlier route
										overlapShape = "literal-route-declared-after-an-overlapping-parameter-route"
									}
								}
							}
						}
						var calls, auths []string
						for _, ev := range resp.Events {
							if strings.HasPrefix(ev, "CALL ") {
								calls = append(calls, strings.Fields(ev)[1])
							}
							if strings.HasPrefix(ev, "AUTH ") {
								auths = append(auths, ev)
							}
						}
						sort.Strings(want)
						if len(want) == 0 {
							// trailing-slash variants of an annotated path are engine configuration, not judged
							variant := false
							for _, ro := range rs {
								if ro.Verb == rq.Verb && (matches(ro.Template, rq.URL+"/") || matches(ro.Template+"/", rq.URL)) {
									variant = true
								}
							}
							if variant {
								continue
							}
						}
						switch {
						case resp.Panic != "":
							run.Report(core.Violation{Oracle: "request-does-not-panic", Features: feat(), What: fmt.Sprintf("%s %s panicked: %s", rq.Verb, rq.URL, resp.Panic), Case: c})
						case len(want) == 0 && (len(calls) > 0 || len(auths) > 0):
							shape := "other"
							for _, ro := range rs {
								ts, ps := strings.Split(ro.Template, "/"), strings.Split(rq.URL, "/")
								last := ts[len(ts)-1]
								if ro.Verb != rq.Verb || !(paramRe.MatchString(last) && last == paramRe.FindString(last)) || len(ps) <= len(ts) {
									continue
								}
								if matches(strings.Join(ts[:len(ts)-1], "/"), strings.Join(ps[:len(ts)-1], "/")) {
									shape = "extra-segment-after-trailing-path-parameter"
								}
							}
							if rq.Verb == "HEAD" {
								// HEAD answered by the handler of the GET route at the same path?
								for _, ro := range rs {
									if ro.Verb == "GET" && matches(strings.TrimRight(ro.Template, "/"), strings.TrimRight(strings.SplitN(rq.URL, "?", 2)[0], "/")) {
										shape = "head-on-a-get-route"
									}
								}
							}
							run.Report(core.Violation{Oracle: "unannotated-route-is-not-served", Features: feat("request-shape", shape), What: fmt.Sprintf("%s %s is not an annotated route but reached %v %v (status %d)", rq.Verb, rq.URL, calls, auths, resp.Status), Case: c})
						case len(want) == 1 && (len(calls) != 1 || calls[0] != want[0]):
							shape := "other"
							if strings.Contains(rawTemplate(c, want[0]), "//") {
								shape = "doubled-slash-in-raw-concatenation"
							}
							if overlapShape != "" {
								shape = overlapShape
							}
							run.Report(core.Violation{Oracle: "annotated-route-reaches-its-method", Features: feat("raw-template", shape), What: fmt.Sprintf("%s %s must reach %s but reached %v (status %d, body %.80q)", rq.Verb, rq.URL, want[0], calls, resp.Status, resp.Body), Case: c})
						case len(want) > 1 && (len(calls) != 1 || !contains(want, calls[0])):
							run.Report(core.Violation{Oracle: "annotated-route-reaches-its-method", Features: feat("ambiguous", "true"), What: fmt.Sprintf("%s %s must reach one of %v but reached %v (status %d)", rq.Verb, rq.URL, want, calls, resp.Status), Case: c})
						}
						if len(want) > 0 {
							served++
						} else {
							notServed++
						}
					}
				}
			}
		}
	}
	if skippedPacks > 0 {
		run.Cap(fmt.Sprintf("deadline reached: %d of %d packs not run", skippedPacks, len(packs)))
	}
	run.Set("requests_expected_served_x_engines", served)
	run.Set("requests_expected_unserved_x_engines", notServed)
	run.Set("scenarios", len(cases))
	run.Outcome("served", int64(served))
	run.Outcome("unserved", int64(notServed))
	run.Sample(cases[0])
	run.Sample(map[string]any{"request": "GET " + instantiate(routesOf(cases[0])[0].Template), "expect": "CALL " + routesOf(cases[0])[0].Ctl + "." + routesOf(cases[0])[0].Method})
	run.Bound = fmt.Sprintf("%d route-layout scenarios (the C01 product and multi-controller families, slash-less full routes excluded) x 5 engines x {5 annotatable verbs, HEAD, OPTIONS} x {documented path instantiated with v1, one segment dropped, one literal changed, one segment added}", len(cases))
	run.Rule = "state = one scenario compiled into all five generated routers; transition = one HTTP request served in-process by one engine; validated = requests whose recorded controller/authorization events were compared with the reference route model"
	run.Assumptions = []string{"status codes of unserved requests, trailing-slash and letter-case variants are not judged", "engines run in strict configuration (no redirects)"}
	os.RemoveAll(scratch)
	run.Finish()
}

func rawTemplate(c scen.Case, name string) string {
	for _, ctl := range c.Unit.Controllers {
		for _, m := range ctl.Methods {
			if ctl.Name+"."+m.Name == name && m.Route != nil {
				p := ""
				if ctl.Prefix != nil {
					p = *ctl.Prefix
				}
				return p + *m.Route
			}
		}
	}
	return ""
}

func contains(l []string, s string) bool {
	for _, x := range l {
		if x == s {
			return true
		}
	}
	return false
}

func firstWord(s string) string {
	if i := strings.IndexByte(s, ':'); i > 0 {
		return s[:i]
	}
	return s
}

func firstLines(s string, n int) string {
	l := strings.Split(strings.TrimSpace(s), "\n")
	if len(l) > n {
		l = l[:n]
	}
	return strings.Join(l, " | ")
}
