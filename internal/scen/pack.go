package scen

import (
	"fmt"
	"os"
	"path/filepath"
	"strings"
	"sync"
	"sync/atomic"
)

// Case is one scenario: a namespaced unit plus a JSON-able description used in replays and known-finding features.
type Case struct {
	ID       string            `json:"id"` // namespace literal, e.g. "s0012"; every identifier and path of the unit carries it
	Unit     Unit              `json:"-"`
	Features map[string]string `json:"features"`
	Desc     any               `json:"desc"`
	// Config mutators applied on top of the base config when the case runs alone (project-global features).
	ConfigPatch map[string]any `json:"config_patch,omitempty"`
}

// Runner executes cases packed into shared projects and/or alone.
type Runner struct {
	Scratch      string
	BaseCfg      func() map[string]any
	Specs        []string
	Routes       []RoutesJob
	Runs         int
	PackSize     int
	ValidateOnly bool
	seq          atomic.Int64
	// Stats
	Projects  atomic.Int64
	Bisects   atomic.Int64
	WorkerMs  atomic.Int64
	KeepFiles bool
}

// Outcome is what one project run produced for a set of cases.
type Outcome struct {
	Cases   []Case
	Res     *Result
	Dir     string
	Project *Project
}

func (o *Outcome) hardFailure() bool {
	r := o.Res
	if r.Crashed != "" || r.Panic != "" || r.ConfigErr != "" || r.PipelineErr != "" || r.GraphErr != "" || r.ValidateErr != "" || r.InterErr != "" {
		return true
	}
	for _, a := range r.Specs {
		if a.Err != "" || a.Panic != "" {
			return true
		}
	}
	for _, a := range r.Routes {
		if a.Err != "" || a.Panic != "" {
			return true
		}
	}
	return false
}

// BuildProject renders the cases into one project.
func (rn *Runner) BuildProject(cases []Case) *Project {
	p := NewProject()
	var units []Unit
	for _, c := range cases {
		units = append(units, c.Unit)
	}
	globs := Render(p, units)
	p.Files["auth/auth.go"] = AuthPackage
	cfg := rn.BaseCfg()
	Set(cfg, "commonConfig.controllerGlobs", globs)
	if len(cases) == 1 {
		for k, v := range cases[0].ConfigPatch {
			Set(cfg, k, v)
		}
	}
	p.Config = cfg
	return p
}

// RunProject writes and runs one project; keepGoing produces artifacts even with error diagnostics.
func (rn *Runner) RunProject(p *Project, keepGoing bool) (*Result, string) {
	dir := filepath.Join(rn.Scratch, fmt.Sprintf("p%06d", rn.seq.Add(1)))
	if err := p.Write(dir); err != nil {
		panic(err)
	}
	var rjs []RoutesJob
	for _, r := range rn.Routes {
		if r.Out == "" {
			r.Out = "./dist/" + r.Key + "/gleece.routes.go"
		}
		rjs = append(rjs, r)
	}
	res := RunJob(Job{Dir: dir, Config: "./gleece.config.json", Specs: rn.Specs, Routes: rjs, Runs: rn.Runs, KeepGoin: keepGoing, ValidateOnly: rn.ValidateOnly})
	rn.Projects.Add(1)
	rn.WorkerMs.Add(res.WallMs)
	return res, dir
}

func (rn *Runner) runGroup(cases []Case, keepGoing bool, handle func(Outcome)) {
	p := rn.BuildProject(cases)
	res, dir := rn.RunProject(p, keepGoing)
	o := Outcome{Cases: cases, Res: res, Dir: dir, Project: p}
	if len(cases) > 1 && o.hardFailure() {
		// a hard failure in a pack is bisected down to the offending scenario(s)
		os.RemoveAll(dir)
		rn.Bisects.Add(1)
		mid := len(cases) / 2
		rn.runGroup(cases[:mid], keepGoing, handle)
		rn.runGroup(cases[mid:], keepGoing, handle)
		return
	}
	handle(o)
	if !rn.KeepFiles {
		os.RemoveAll(dir)
	}
}

// RunPacked runs the cases in packs of PackSize (keep-going mode, bisecting hard failures) over all cores.
func (rn *Runner) RunPacked(cases []Case, handle func(Outcome)) {
	size := rn.PackSize
	if size <= 0 {
		size = 100
	}
	var groups [][]Case
	for i := 0; i < len(cases); i += size {
		j := i + size
		if j > len(cases) {
			j = len(cases)
		}
		groups = append(groups, cases[i:j])
	}
	var mu sync.Mutex
	Pool(0, len(groups), func(i int) {
		rn.runGroup(groups[i], true, func(o Outcome) {
			mu.Lock()
			defer mu.Unlock()
			handle(o)
		})
	})
}

// RunSingles runs each case alone, exactly as the CLI would treat it (no keep-going).
func (rn *Runner) RunSingles(cases []Case, handle func(Outcome)) {
	var mu sync.Mutex
	Pool(0, len(cases), func(i int) {
		rn.runGroup(cases[i:i+1], false, func(o Outcome) {
			mu.Lock()
			defer mu.Unlock()
			handle(o)
		})
	})
}

// DiagsFor returns the diagnostics attributable to a case (entity path mentions one of its controllers).
func DiagsFor(res *Result, c Case) []Diag {
	var out []Diag
	for _, d := range res.Diags {
		for _, ctl := range c.Unit.Controllers {
			if strings.HasPrefix(d.Entity, "Controller "+ctl.Name+"/") || d.Entity == "Controller "+ctl.Name {
				out = append(out, d)
				break
			}
		}
	}
	return out
}

// HasErrorDiag reports whether any of the diagnostics is of error severity.
func HasErrorDiag(ds []Diag) bool {
	for _, d := range ds {
		if d.Severity == 1 {
			return true
		}
	}
	return false
}
