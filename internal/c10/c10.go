// Package c10 decides C10 (validation accepts exactly the well-linked routes, else blocks all output) by taking
// six well-formed base routes, applying every single (thorough: every double) perturbation of annotations,
// template names, parameters, return values and verb, and comparing the real validator's accept/reject decision
// with the statement's link rules; every single perturbation is also pushed through the real CLI with stale
// output files in place to check that a rejected project writes neither routes nor spec.
package c10

import (
	"fmt"
	"os"
	"path/filepath"
	"regexp"
	"sort"
	"strings"
	"time"

	"verif/internal/core"
	"verif/internal/fam"
	"verif/internal/scen"
)

type Ann struct {
	Kind  string `json:"kind"` // Path | Query | Header | FormField | Body
	Ref   string `json:"ref"`
	Alias string `json:"alias,omitempty"`
	Stray bool   `json:"stray,omitempty"` // carries a property nobody knows ({ note: "stray" }): a warning at most
}

type Prm struct {
	Name string `json:"name"`
	Type string `json:"type"` // token with § for the namespace
}

type Route struct {
	Prefix    string   `json:"prefix"`
	Route     string   `json:"route"`
	Anns      []Ann    `json:"anns"`
	Params    []Prm    `json:"params"`
	Rets      []string `json:"rets"`
	Verb      string   `json:"verb"`
	VerbStray bool     `json:"verb_stray,omitempty"` // @Method carries an unknown property
	NoTag     bool     `json:"no_tag,omitempty"`     // the controller has no @Tag (a warning, not a link error)
	// Sibling adds a second, well-formed method to the controller whose route overlaps this one (a route-conflict
	// warning on the same controller): warnings must never mask errors
	Sibling bool `json:"sibling,omitempty"`
}

func (r Route) clone() Route {
	c := r
	c.Anns = append([]Ann(nil), r.Anns...)
	c.Params = append([]Prm(nil), r.Params...)
	c.Rets = append([]string(nil), r.Rets...)
	return c
}

var nameRe = regexp.MustCompile(`\{([^{}/]*)\}`)

func isCtx(t string) bool { return t == "context.Context" }

func primitiveLike(t string) (ok bool, slice bool) {
	t = strings.TrimPrefix(t, "*")
	if strings.HasPrefix(t, "[]") {
		ok, _ := primitiveLike(t[2:])
		return ok, true
	}
	switch t {
	case "string", "int", "int64", "bool", "float64", "E§", "TS§":
		return true, false
	}
	return false, false
}

// judge evaluates the statement's link rules; it returns the list of violated rules (empty = accept).
func judge(r Route) []string {
	var bad []string
	// R1: template names <-> @Path bindings, one to one
	var tmpl []string
	for _, m := range nameRe.FindAllStringSubmatch(r.Prefix+r.Route, -1) {
		tmpl = append(tmpl, m[1])
	}
	tset := map[string]int{}
	for _, n := range tmpl {
		tset[n]++
		if tset[n] == 2 {
			bad = append(bad, "R1:duplicate-template-name")
		}
	}
	bset := map[string]int{}
	for _, a := range r.Anns {
		if a.Kind != "Path" {
			continue
		}
		n := a.Ref
		if a.Alias != "" {
			n = a.Alias
		}
		bset[n]++
		if bset[n] == 2 {
			bad = append(bad, "R1:duplicate-path-binding")
		}
	}
	for n := range tset {
		if bset[n] == 0 {
			bad = append(bad, "R1:template-name-without-path-binding")
			break
		}
	}
	for n := range bset {
		if tset[n] == 0 {
			bad = append(bad, "R1:path-binding-without-template-name")
			break
		}
	}
	// R2: every non-context parameter referenced by exactly one annotation; every annotation references a parameter
	pnames := map[string]string{}
	for _, p := range r.Params {
		pnames[p.Name] = p.Type
	}
	refs := map[string]int{}
	for _, a := range r.Anns {
		refs[a.Ref]++
		if _, ok := pnames[a.Ref]; !ok {
			bad = append(bad, "R2:annotation-references-no-parameter")
		}
	}
	for _, p := range r.Params {
		if isCtx(p.Type) {
			continue
		}
		switch {
		case refs[p.Name] == 0:
			bad = append(bad, "R2:parameter-not-referenced")
		case refs[p.Name] > 1:
			bad = append(bad, "R2:parameter-referenced-more-than-once")
		}
	}
	// R3: at most one body, never body with form fields
	bodies, forms := 0, 0
	for _, a := range r.Anns {
		if a.Kind == "Body" {
			bodies++
		}
		if a.Kind == "FormField" {
			forms++
		}
	}
	if bodies > 1 {
		bad = append(bad, "R3:more-than-one-body")
	}
	if bodies > 0 && forms > 0 {
		bad = append(bad, "R3:body-with-form")
	}
	// R4: non-body parameters are primitives, enums or primitive aliases (slices only in query)
	for _, a := range r.Anns {
		t, ok := pnames[a.Ref]
		if !ok || a.Kind == "Body" || isCtx(t) {
			continue
		}
		prim, slice := primitiveLike(t)
		if !prim {
			bad = append(bad, "R4:non-body-parameter-not-primitive")
		} else if slice && a.Kind != "Query" {
			bad = append(bad, "R4:slice-outside-query")
		}
	}
	// R5: returns error or (T, error) whose last type is or embeds error
	errLike := func(t string) bool { return t == "error" || t == "CErr§" || t == "xerr.XErr§" || t == "*CErr§" }
	switch len(r.Rets) {
	case 1:
		if !errLike(r.Rets[0]) {
			bad = append(bad, "R5:single-return-not-error")
		}
	case 2:
		if !errLike(r.Rets[1]) {
			bad = append(bad, "R5:last-return-not-error")
		}
	default:
		bad = append(bad, "R5:return-count")
	}
	// R6: supported verb
	switch r.Verb {
	case "GET", "POST", "PUT", "DELETE", "PATCH":
	default:
		bad = append(bad, "R6:unsupported-verb")
	}
	return uniq(bad)
}

func uniq(s []string) []string {
	sort.Strings(s)
	var out []string
	for i, x := range s {
		if i == 0 || x != s[i-1] {
			out = append(out, x)
		}
	}
	return out
}

// silent reports perturbed routes on which the statement's rules are silent or ambiguous; they are explored
// (crashes still count elsewhere) but not judged.
// nonStringAlias stands for a `name` property that is not a string ({ name: 5 }).
const nonStringAlias = "#5"

func silent(r Route) string {
	for _, a := range r.Anns {
		if a.Alias == nonStringAlias {
			return "wire name that is not a string (the rules speak of names)"
		}
		if a.Kind == "Body" {
			if t := typeOf(r, a.Ref); t != "" {
				if prim, slice := primitiveLike(t); prim && !slice {
					return "primitive body (the rules do not restrict body types)"
				}
				if t == "error" {
					return "body of the built-in error type (the rules do not restrict body types)"
				}
			}
		}
		if t := typeOf(r, a.Ref); isCtx(t) {
			return "annotation bound to the context parameter"
		}
	}
	if len(r.Rets) == 2 && (r.Rets[0] == "error" || r.Rets[0] == "CErr§") {
		return "value type that is itself an error"
	}
	return ""
}

func typeOf(r Route, name string) string {
	for _, p := range r.Params {
		if p.Name == name {
			return p.Type
		}
	}
	return ""
}

// ---- bases and perturbations ---------------------------------------------------------------------------------

func bases() []Route {
	return []Route{
		{Prefix: "/§", Route: "/b1/{id}", Verb: "GET", Rets: []string{"string", "error"},
			Anns:   []Ann{{Kind: "Path", Ref: "id"}, {Kind: "Query", Ref: "q"}, {Kind: "Header", Ref: "h"}},
			Params: []Prm{{"id", "string"}, {"q", "int"}, {"h", "string"}}},
		{Prefix: "/§", Route: "/b2", Verb: "POST", Rets: []string{"error"},
			Anns: []Ann{{Kind: "Body", Ref: "b"}}, Params: []Prm{{"b", "Body§"}}},
		{Prefix: "/§", Route: "/b3", Verb: "POST", Rets: []string{"Body§", "error"},
			Anns: []Ann{{Kind: "FormField", Ref: "f1"}, {Kind: "FormField", Ref: "f2"}}, Params: []Prm{{"f1", "string"}, {"f2", "int"}}},
		{Prefix: "/§", Route: "/b4/{ident}", Verb: "GET", Rets: []string{"error"},
			Anns: []Ann{{Kind: "Path", Ref: "id", Alias: "ident"}}, Params: []Prm{{"id", "string"}}},
		{Prefix: "/§", Route: "/b5", Verb: "GET", Rets: []string{"[]Body§", "error"},
			Anns: []Ann{{Kind: "Query", Ref: "p"}, {Kind: "Header", Ref: "q"}}, Params: []Prm{{"ctx", "context.Context"}, {"p", "*string"}, {"q", "*int"}}},
		{Prefix: "/§/{tenant}", Route: "/b6/{id}", Verb: "GET", Rets: []string{"error"},
			Anns: []Ann{{Kind: "Path", Ref: "tenant"}, {Kind: "Path", Ref: "id"}}, Params: []Prm{{"tenant", "string"}, {"id", "string"}}},
	}
}

type pert struct {
	Name string
	F    func(r *Route) bool // false = not applicable
}

func perturbations(b Route) []pert {
	var ps []pert
	kinds := []string{"Path", "Query", "Header", "FormField", "Body"}
	for i := range b.Anns {
		i := i
		tag := fmt.Sprintf("ann[%d]", i)
		ps = append(ps, pert{tag + ".drop", func(r *Route) bool {
			if i >= len(r.Anns) {
				return false
			}
			r.Anns = append(r.Anns[:i:i], r.Anns[i+1:]...)
			return true
		}})
		ps = append(ps, pert{tag + ".duplicate", func(r *Route) bool {
			if i >= len(r.Anns) {
				return false
			}
			r.Anns = append(r.Anns, r.Anns[i])
			return true
		}})
		ps = append(ps, pert{tag + ".rename-ref", func(r *Route) bool {
			if i >= len(r.Anns) {
				return false
			}
			r.Anns[i].Ref = "zz"
			return true
		}})
		for j := range b.Params {
			j := j
			ps = append(ps, pert{fmt.Sprintf("%s.retarget->param[%d]", tag, j), func(r *Route) bool {
				if i >= len(r.Anns) || j >= len(r.Params) || r.Anns[i].Ref == r.Params[j].Name {
					return false
				}
				r.Anns[i].Ref = r.Params[j].Name
				return true
			}})
		}
		for _, k := range kinds {
			k := k
			ps = append(ps, pert{tag + ".kind->" + k, func(r *Route) bool {
				if i >= len(r.Anns) || r.Anns[i].Kind == k {
					return false
				}
				r.Anns[i].Kind = k
				return true
			}})
		}
		ps = append(ps, pert{tag + ".alias=al", func(r *Route) bool {
			if i >= len(r.Anns) || r.Anns[i].Alias == "al" {
				return false
			}
			r.Anns[i].Alias = "al"
			return true
		}})
		ps = append(ps, pert{tag + ".stray-property", func(r *Route) bool {
			if i >= len(r.Anns) || r.Anns[i].Stray {
				return false
			}
			r.Anns[i].Stray = true
			return true
		}})
		ps = append(ps, pert{tag + ".alias-non-string", func(r *Route) bool {
			if i >= len(r.Anns) || r.Anns[i].Alias == nonStringAlias {
				return false
			}
			r.Anns[i].Alias = nonStringAlias
			return true
		}})
		ps = append(ps, pert{tag + ".alias-cleared", func(r *Route) bool {
			if i >= len(r.Anns) || r.Anns[i].Alias == "" {
				return false
			}
			r.Anns[i].Alias = ""
			return true
		}})
	}
	for _, where := range []string{"route", "prefix"} {
		where := where
		get := func(r *Route) *string {
			if where == "route" {
				return &r.Route
			}
			return &r.Prefix
		}
		names := nameRe.FindAllStringSubmatch(*get(&b), -1)
		for _, m := range names {
			n := m[1]
			ps = append(ps, pert{where + ".{" + n + "}.drop", func(r *Route) bool {
				s := get(r)
				if !strings.Contains(*s, "{"+n+"}") {
					return false
				}
				*s = strings.Replace(*s, "{"+n+"}", n, 1)
				return true
			}})
			ps = append(ps, pert{where + ".{" + n + "}.duplicate", func(r *Route) bool {
				s := get(r)
				if !strings.Contains(*s, "{"+n+"}") {
					return false
				}
				*s += "/{" + n + "}"
				return true
			}})
			ps = append(ps, pert{where + ".{" + n + "}.rename", func(r *Route) bool {
				s := get(r)
				if !strings.Contains(*s, "{"+n+"}") {
					return false
				}
				*s = strings.Replace(*s, "{"+n+"}", "{zz}", 1)
				return true
			}})
		}
		ps = append(ps, pert{where + ".add-{extra}", func(r *Route) bool { *get(r) += "/{extra}"; return true }})
	}
	for j := range b.Params {
		j := j
		tag := fmt.Sprintf("param[%d]", j)
		ps = append(ps, pert{tag + ".drop", func(r *Route) bool {
			if j >= len(r.Params) {
				return false
			}
			r.Params = append(r.Params[:j:j], r.Params[j+1:]...)
			return true
		}})
		ps = append(ps, pert{tag + ".rename", func(r *Route) bool {
			if j >= len(r.Params) {
				return false
			}
			r.Params[j].Name = "renamed"
			return true
		}})
		for _, t := range []string{"string", "Body§", "[]string", "*string", "E§", "TS§", "[]Body§", "context.Context", "map[string]int", "error", "*Body§"} {
			t := t
			ps = append(ps, pert{tag + ".retype->" + t, func(r *Route) bool {
				if j >= len(r.Params) || r.Params[j].Type == t {
					return false
				}
				r.Params[j].Type = t
				return true
			}})
		}
	}
	ps = append(ps, pert{"param.add-unbound", func(r *Route) bool { r.Params = append(r.Params, Prm{"extra", "string"}); return true }})
	// a further annotation: bound to a new function parameter (well-linked for everything except an extra @Path, a
	// second body, or a body next to form fields) or to nothing at all
	for _, k := range kinds {
		k := k
		ps = append(ps, pert{"ann.add-" + k + "->new-param", func(r *Route) bool {
			t := "string"
			if k == "Body" {
				t = "Body§"
			}
			r.Params = append(r.Params, Prm{"added", t})
			r.Anns = append(r.Anns, Ann{Kind: k, Ref: "added"})
			return true
		}})
		ps = append(ps, pert{"ann.add-" + k + "->no-param", func(r *Route) bool {
			r.Anns = append(r.Anns, Ann{Kind: k, Ref: "ghost"})
			return true
		}})
	}
	ps = append(ps, pert{"param.add-context", func(r *Route) bool {
		for _, p := range r.Params {
			if isCtx(p.Type) {
				return false
			}
		}
		r.Params = append(r.Params, Prm{"ctx", "context.Context"})
		return true
	}})
	ps = append(ps,
		pert{"ret.drop-last", func(r *Route) bool {
			if len(r.Rets) == 0 {
				return false
			}
			r.Rets = r.Rets[:len(r.Rets)-1]
			return true
		}},
		pert{"ret.drop-first", func(r *Route) bool {
			if len(r.Rets) < 2 {
				return false
			}
			r.Rets = r.Rets[1:]
			return true
		}},
		pert{"ret.swap", func(r *Route) bool {
			if len(r.Rets) != 2 {
				return false
			}
			r.Rets[0], r.Rets[1] = r.Rets[1], r.Rets[0]
			return true
		}},
		pert{"ret.last->string", func(r *Route) bool {
			if len(r.Rets) == 0 {
				return false
			}
			r.Rets[len(r.Rets)-1] = "string"
			return true
		}},
		// a last return type written over several lines (the diagnostic's range must still be well-formed)
		pert{"ret.last->multi-line-generic", func(r *Route) bool {
			if len(r.Rets) < 2 {
				return false
			}
			r.Rets[len(r.Rets)-1] = "Wrap§[\n\tint,\n]"
			return true
		}},
		pert{"ret.last->CErr", func(r *Route) bool {
			if len(r.Rets) == 0 || r.Rets[len(r.Rets)-1] == "CErr§" {
				return false
			}
			r.Rets[len(r.Rets)-1] = "CErr§"
			return true
		}},
		// an error type declared in another package, and a pointer to one: both "are or embed error"
		pert{"ret.last->CErr-from-another-package", func(r *Route) bool {
			if len(r.Rets) == 0 || r.Rets[len(r.Rets)-1] == "xerr.XErr§" {
				return false
			}
			r.Rets[len(r.Rets)-1] = "xerr.XErr§"
			return true
		}},
		pert{"ret.add-value", func(r *Route) bool {
			if len(r.Rets) != 1 {
				return false
			}
			r.Rets = append([]string{"int"}, r.Rets...)
			return true
		}},
		pert{"ret.add-third", func(r *Route) bool { r.Rets = append([]string{"int"}, r.Rets...); return len(r.Rets) == 3 }},
		pert{"ret.add-third-with-multi-line-last", func(r *Route) bool {
			r.Rets = append([]string{"int"}, r.Rets...)
			if len(r.Rets) != 3 {
				return false
			}
			r.Rets[2] = "Wrap§[\n\tint,\n]"
			return true
		}},
	)
	// the same route with its annotations / its parameters written in the opposite order: order is not part of any rule
	ps = append(ps, pert{"anns.reversed", func(r *Route) bool {
		if len(r.Anns) < 2 {
			return false
		}
		for i, j := 0, len(r.Anns)-1; i < j; i, j = i+1, j-1 {
			r.Anns[i], r.Anns[j] = r.Anns[j], r.Anns[i]
		}
		return true
	}})
	ps = append(ps, pert{"anns.params-reversed", func(r *Route) bool {
		if len(r.Params) < 2 {
			return false
		}
		for i, j := 0, len(r.Params)-1; i < j; i, j = i+1, j-1 {
			r.Params[i], r.Params[j] = r.Params[j], r.Params[i]
		}
		return true
	}})
	ps = append(ps, pert{"controller.tag.drop", func(r *Route) bool {
		if r.NoTag {
			return false
		}
		r.NoTag = true
		return true
	}})
	ps = append(ps, pert{"verb.stray-property", func(r *Route) bool {
		if r.VerbStray {
			return false
		}
		r.VerbStray = true
		return true
	}})
	for _, v := range []string{"HEAD", "FOO", "PUT"} {
		v := v
		ps = append(ps, pert{"verb->" + v + "+stray-property", func(r *Route) bool {
			if r.Verb == v || r.VerbStray {
				return false
			}
			r.Verb, r.VerbStray = v, true
			return true
		}})
	}
	for _, v := range []string{"POST", "DELETE", "PATCH", "HEAD", "OPTIONS", "FOO", "get", "Options"} {
		v := v
		ps = append(ps, pert{"verb->" + v, func(r *Route) bool {
			if r.Verb == v {
				return false
			}
			r.Verb = v
			return true
		}})
	}
	return ps
}

// ---- rendering ---------------------------------------------------------------------------------------------------

func render(id string, r Route) scen.Unit {
	sub := func(s string) string { return strings.ReplaceAll(s, "§", id) }
	m := scen.Method{Name: "Op" + id, Verb: r.Verb, Route: scen.S(sub(r.Route)), Body: "\tpanic(\"never called\")\n"}
	if r.VerbStray {
		m.Verb += ", { note: \"stray\" }"
	}
	for _, p := range r.Params {
		m.Params = append(m.Params, scen.Param{Name: p.Name, Type: sub(p.Type)})
	}
	for _, a := range r.Anns {
		if a.Stray && a.Alias == "" {
			m.Extra = append(m.Extra, fmt.Sprintf("// @%s(%s, { note: \"stray\" })", a.Kind, a.Ref))
		} else if a.Stray && a.Alias != nonStringAlias {
			m.Extra = append(m.Extra, fmt.Sprintf("// @%s(%s, { name: %q, note: \"stray\" })", a.Kind, a.Ref, a.Alias))
		} else if a.Alias == nonStringAlias {
			m.Extra = append(m.Extra, fmt.Sprintf("// @%s(%s, { name: 5 })", a.Kind, a.Ref))
		} else if a.Alias != "" {
			m.Extra = append(m.Extra, fmt.Sprintf("// @%s(%s, { name: %q })", a.Kind, a.Ref, a.Alias))
		} else {
			m.Extra = append(m.Extra, fmt.Sprintf("// @%s(%s)", a.Kind, a.Ref))
		}
	}
	switch len(r.Rets) {
	case 0:
		m.Err = "-"
	case 1:
		m.Err = sub(r.Rets[0])
	case 2:
		m.Ret, m.Err = sub(r.Rets[0]), sub(r.Rets[1])
	default:
		m.Ret, m.Err = sub(strings.Join(r.Rets[:len(r.Rets)-1], ", ")), sub(r.Rets[len(r.Rets)-1])
	}
	ctl := scen.Controller{Name: "C" + id, Pkg: id, Prefix: scen.S(sub(r.Prefix)), Tag: scen.S("T" + id), Methods: []scen.Method{m}}
	if r.NoTag {
		ctl.Tag = nil
	}
	if r.Sibling {
		// same verb, same shape, every {param} replaced by a literal: overlaps the route above
		sibRoute := nameRe.ReplaceAllString(sub(r.Route), "lit")
		sib := scen.Method{Name: "Sib" + id, Verb: r.Verb, Route: scen.S(sibRoute), Body: "\tpanic(\"never called\")\n"}
		for _, mm := range nameRe.FindAllStringSubmatch(sub(r.Prefix), -1) {
			sib.Params = append(sib.Params, scen.Param{Name: "s" + mm[1], Type: "string", In: "Path", Alias: mm[1]})
		}
		switch r.Verb {
		case "GET", "POST", "PUT", "DELETE", "PATCH":
			ctl.Methods = append(ctl.Methods, sib)
		}
	}
	decl := sub("type Body§ struct {\n\tA string `json:\"a\"`\n}\n\ntype E§ string\n\nconst (\n\tE§A E§ = \"a\"\n\tE§B E§ = \"b\"\n)\n\ntype TS§ string\n\ntype CErr§ struct {\n\terror\n\tCode int `json:\"code\"`\n}\n\ntype Wrap§[T any] struct {\n\tV T `json:\"v\"`\n}\n")
	u := scen.Unit{Controllers: []scen.Controller{ctl}, Decls: map[string]string{id: decl}, Imports: map[string][]string{id: {"context"}}}
	for _, rt := range r.Rets {
		if strings.Contains(rt, "xerr.") {
			u.Decls[id+"/xerr"] = sub("type XErr§ struct {\n\terror\n\tCode int `json:\"code\"`\n}\n")
			u.Imports[id] = append(u.Imports[id], "xerr "+scen.ModulePath+"/"+id+"/xerr")
		}
	}
	return u
}

type caseInfo struct {
	Route  Route
	Bad    []string
	Silent string
	Perts  []string
}

func buildCases(tier string) ([]scen.Case, map[string]caseInfo) {
	var cases []scen.Case
	info := map[string]caseInfo{}
	n := 0
	seen := map[string]bool{}
	add := func(base int, r Route, perts []string) {
		key := fmt.Sprintf("%d|%+v", base, r)
		if seen[key] {
			return
		}
		seen[key] = true
		id := fmt.Sprintf("k%04d", n)
		n++
		bad := judge(r)
		ci := caseInfo{Route: r, Bad: bad, Silent: silent(r), Perts: perts}
		info[id] = ci
		cases = append(cases, scen.Case{ID: id, Unit: render(id, r),
			Features: map[string]string{"base": fmt.Sprintf("b%d", base+1), "perturbations": strings.Join(perts, " + "), "model": strings.Join(bad, ","), "depth": fmt.Sprint(len(perts))},
			Desc:     map[string]any{"route": r, "perturbations": perts, "model_violated_rules": bad}})
	}
	for bi, b := range bases() {
		add(bi, b.clone(), nil)
		withSib := b.clone()
		withSib.Sibling = true
		add(bi, withSib, []string{"conflicting-sibling"})
		ps := perturbations(b)
		// every single perturbation first: a pair that happens to yield the same route as a single one (verb->POST then
		// verb->PATCH) must not take the single one's place in the enumeration
		for _, p := range ps {
			r1 := b.clone()
			if !p.F(&r1) {
				continue
			}
			add(bi, r1, []string{p.Name})
			rs := r1.clone()
			rs.Sibling = true
			add(bi, rs, []string{p.Name, "conflicting-sibling"})
		}
		for i, p := range ps {
			r1 := b.clone()
			if !p.F(&r1) {
				continue
			}
			for _, q := range ps[i+1:] {
				// quick: only pairs of link-level perturbations (annotations and template names); thorough: every pair
				if tier != "thorough" && !(linkLevel(p.Name) && linkLevel(q.Name)) {
					continue
				}
				r2 := r1.clone()
				if !q.F(&r2) {
					continue
				}
				add(bi, r2, []string{p.Name, q.Name})
			}
		}
	}
	return cases, info
}

// errorTypeTwins: two routes of one project whose error return types have the same type name and live in packages with
// the same short name (v1/apierr.ApiErr embeds error, v2/apierr.ApiErr does not), in both declaration orders. The route
// returning the embedding type is well-linked, the other one is not, whatever was validated first.
func errorTypeTwins(run *core.Run, scratch string) {
	var cases []scen.Case
	for n, goodFirst := range []bool{true, false} {
		id := fmt.Sprintf("e%04d", n)
		good := scen.Method{Name: "Good" + id, Verb: "GET", Route: scen.S("/good"), Ret: "string", Err: "v1err.ApiErr", Body: "\tpanic(\"never called\")\n"}
		bad := scen.Method{Name: "Bad" + id, Verb: "GET", Route: scen.S("/bad"), Ret: "string", Err: "v2err.ApiErr", Body: "\tpanic(\"never called\")\n"}
		ms := []scen.Method{good, bad}
		if !goodFirst {
			ms = []scen.Method{bad, good}
		}
		ctl := scen.Controller{Name: "C" + id, Pkg: id, Prefix: scen.S("/" + id), Tag: scen.S("T" + id), Methods: ms}
		u := scen.Unit{Controllers: []scen.Controller{ctl}, Decls: map[string]string{
			id + "/v1/apierr": "type ApiErr struct {\n\terror\n\tCode int `json:\"code\"`\n}\n",
			id + "/v2/apierr": "type ApiErr struct {\n\tCode int `json:\"code\"`\n}\n"},
			Imports: map[string][]string{id: {"v1err " + scen.ModulePath + "/" + id + "/v1/apierr", "v2err " + scen.ModulePath + "/" + id + "/v2/apierr"}}}
		cases = append(cases, scen.Case{ID: id, Unit: u, Features: map[string]string{"family": "error-type-twins", "well-linked-route-first": fmt.Sprint(goodFirst)}, Desc: map[string]any{"controller": ctl, "decls": u.Decls}})
	}
	f := fam.Family{Name: "error-type-twins", Cases: cases, BaseCfg: fam.DefaultCfg, PackSize: 1}
	fam.RunOpt(f, scratch, nil, nil, cases, true, func(v fam.View) {
		run.AddValidated(1)
		if v.Hard != "" {
			run.Report(core.Violation{Oracle: "well-linked-route-must-be-accepted", Features: v.Feat("real", "hard error"), What: "a project with one well-linked and one ill-linked route ended in a hard error instead of a diagnostic for the ill-linked route: " + v.Hard, Case: v.Case})
			return
		}
		flagged := map[string]bool{}
		for _, d := range v.Diags {
			if d.Severity == 1 {
				flagged[d.Entity[strings.LastIndex(d.Entity, "Receiver ")+len("Receiver "):]] = true
			}
		}
		if !flagged["Bad"+v.Case.ID] {
			run.Report(core.Violation{Oracle: "ill-linked-route-must-be-rejected", Features: v.Feat("rule", "R5:last-return-type-is-not-an-error"), What: "the route returning v2/apierr.ApiErr (no embedded error) got no error diagnostic; flagged: " + fmt.Sprint(flagged), Case: v.Case})
		}
		if flagged["Good"+v.Case.ID] {
			run.Report(core.Violation{Oracle: "well-linked-route-must-be-accepted", Features: v.Feat("real", "diagnostic"), What: "the route returning v1/apierr.ApiErr (embeds error) was flagged with an error", Case: v.Case})
		}
		run.Outcome("error-type-twins: judged", 1)
	})
}

// controllerTwinsCLI: two controllers with the same struct name in different packages, one of which only earns a
// warning (no @Tag) while the other holds the project's only error (an ill-linked route), in both package orders and
// with one to three such pairs per project. Whatever the entities are called, one error blocks all output.
func controllerTwinsCLI(run *core.Run, scratch string) {
	type variant struct {
		name     string
		errorIn  string // package of the controller with the ill-linked route
		sameName bool
	}
	vs := []variant{{"same name, error in the later package", "zb", true}, {"same name, error in the earlier package", "za", true}, {"different names, error in the later package", "zb", false}}
	for vi, v := range vs {
		id := fmt.Sprintf("f%04d", vi)
		mk := func(pkg string, ill bool) scen.Controller {
			name := "Twin" + id
			if !v.sameName {
				name += pkg
			}
			m := scen.Method{Name: "Get" + pkg + id, Verb: "GET", Route: scen.S("/one/{id}"), Params: []scen.Param{{Name: "id", Type: "string", In: "Path"}}, Body: "\tpanic(\"never called\")\n"}
			if ill {
				m.Params = append(m.Params, scen.Param{Name: "h", Type: "[]string", In: "Header"}) // a slice outside the query: rule R4
			}
			c := scen.Controller{Name: name, Pkg: id + "/" + pkg, Prefix: scen.S("/" + id + "/" + pkg), Methods: []scen.Method{m}}
			if ill {
				c.Tag = scen.S("T" + id)
			}
			return c
		}
		u := scen.Unit{Controllers: []scen.Controller{mk("za", v.errorIn == "za"), mk("zb", v.errorIn == "zb")}}
		rn := &scen.Runner{Scratch: scratch, BaseCfg: fam.DefaultCfg}
		p := rn.BuildProject([]scen.Case{{ID: id, Unit: u}})
		p.Files["dist/openapi.json"] = "STALE SPEC\n"
		p.Files["dist/routes/gleece.routes.go"] = "// STALE ROUTES\n"
		dir := filepath.Join(scratch, "twins-"+id)
		if err := p.Write(dir); err != nil {
			core.Harness("cannot write project: %v", err)
		}
		r := scen.RunCLI(dir, []string{"generate", "spec-and-routes", "-c", "./gleece.config.json"}, 120)
		os.RemoveAll(dir)
		run.AddValidated(1)
		feat := map[string]string{"family": "controller-twins", "variant": v.name, "seam": "cli"}
		cs := map[string]any{"id": id, "variant": v.name, "controllers": u.Controllers}
		untouched := r.Files["dist/openapi.json"] == "STALE SPEC\n" && r.Files["dist/routes/gleece.routes.go"] == "// STALE ROUTES\n"
		switch {
		case r.Exit == 0:
			run.Report(core.Violation{Oracle: "ill-linked-route-must-be-rejected", Features: feat, What: "a project with an ill-linked route (a []string header parameter) in one of two controllers exited 0 and wrote its artifacts", Case: cs})
		case !untouched:
			run.Report(core.Violation{Oracle: "failed-command-writes-nothing", Features: feat, What: "the command failed but modified an output file: " + lastLines(r.Output, 3), Case: cs})
		}
		run.Outcome("controller-twins: judged", 1)
	}
}

// routelessControllersCLI: an error in a controller's own annotations fails the command whether or not that
// controller ends up with any route. The controller with the error is written three ways - with a routed method
// (the control), with a method that lost its annotations, with a hidden method only - next to a healthy controller.
func routelessControllersCLI(run *core.Run, scratch string) {
	errLines := [][]string{{"// @Tagg(x)"}, {"// @Method(GET)"}, {"// @Query(q)"}}
	shapes := []string{"routed method", "method without annotations", "no method"}
	type res struct {
		exit      int
		untouched bool
		out       string
	}
	for ei, el := range errLines {
		results := make([]res, len(shapes))
		var cases []any
		for si, shape := range shapes {
			id := fmt.Sprintf("g%02d%02d", ei, si)
			ok := scen.Controller{Name: "Ok" + id, Pkg: id, Prefix: scen.S("/" + id + "/ok"), Tag: scen.S("T" + id), Methods: []scen.Method{{Name: "Get" + id, Verb: "GET", Route: scen.S("/one"), Body: "\tpanic(\"never called\")\n"}}}
			bare := scen.Controller{Name: "Bare" + id, Pkg: id, Prefix: scen.S("/" + id + "/bare"), Extra: el}
			switch si {
			case 0:
				bare.Methods = []scen.Method{{Name: "Routed" + id, Verb: "GET", Route: scen.S("/two"), Body: "\tpanic(\"never called\")\n"}}
			case 1:
				bare.Methods = []scen.Method{{Name: "Plain" + id, Body: "\tpanic(\"never called\")\n"}}
			}
			u := scen.Unit{Controllers: []scen.Controller{ok, bare}}
			rn := &scen.Runner{Scratch: scratch, BaseCfg: fam.DefaultCfg}
			p := rn.BuildProject([]scen.Case{{ID: id, Unit: u}})
			p.Files["dist/openapi.json"] = "STALE SPEC\n"
			p.Files["dist/routes/gleece.routes.go"] = "// STALE ROUTES\n"
			dir := filepath.Join(scratch, "bare-"+id)
			if err := p.Write(dir); err != nil {
				core.Harness("cannot write project: %v", err)
			}
			r := scen.RunCLI(dir, []string{"generate", "spec-and-routes", "-c", "./gleece.config.json"}, 120)
			os.RemoveAll(dir)
			run.AddValidated(1)
			results[si] = res{r.Exit, r.Files["dist/openapi.json"] == "STALE SPEC\n" && r.Files["dist/routes/gleece.routes.go"] == "// STALE ROUTES\n", lastLines(r.Output, 3)}
			if os.Getenv("VERIF_DEBUG") != "" {
				fmt.Fprintf(os.Stderr, "DEBUG routeless %s %s exit=%d %s\n", el[0], shape, r.Exit, lastLines(r.Output, 6))
			}
			cases = append(cases, map[string]any{"id": id, "shape": shape, "controllers": u.Controllers})
		}
		if results[0].exit == 0 {
			// the control is not an error-severity problem: nothing to compare
			run.Outcome("routeless-controllers: control accepted", 1)
			continue
		}
		for si := 1; si < len(shapes); si++ {
			feat := map[string]string{"family": "routeless-controllers", "annotation": el[0], "shape": shapes[si], "seam": "cli"}
			switch {
			case results[si].exit == 0:
				run.Report(core.Violation{Oracle: "controller-error-fails-the-command-with-or-without-routes", Features: feat, What: fmt.Sprintf("controller annotation %q fails the command when the controller has a routed method, but with %s the command exits 0 and writes its artifacts", el[0], shapes[si]), Case: cases[si]})
			case !results[si].untouched:
				run.Report(core.Violation{Oracle: "failed-command-writes-nothing", Features: feat, What: "the command failed but modified an output file: " + results[si].out, Case: cases[si]})
			}
			run.Outcome("routeless-controllers: judged", 1)
		}
	}
}

// linkLevel: perturbations of annotations and template names other than re-kinding / re-targeting (those are
// covered one at a time).
func linkLevel(name string) bool {
	return (strings.HasPrefix(name, "ann") || strings.HasPrefix(name, "route.") || strings.HasPrefix(name, "prefix.")) && !strings.Contains(name, ".kind->") && !strings.Contains(name, ".retarget->")
}

// ---- the check ---------------------------------------------------------------------------------------------------

func Main(tier, replay string) {
	run := core.NewRun("C10", tier)
	scratch := scen.MkScratch("c10")
	defer os.RemoveAll(scratch)
	if os.Getenv("VERIF_DEBUG") == "routeless" {
		routelessControllersCLI(run, scratch)
		return
	}
	cases, info := buildCases(tier)
	deadline := core.Deadline(tier, 8*time.Minute, 50*time.Minute)
	f := fam.Family{Name: "link", Cases: cases, BaseCfg: fam.DefaultCfg, PackSize: 60}
	packed := cases
	var singles []scen.Case
	if replay != "" {
		_, v := core.LoadReplay(replay)
		id, _ := v.Case.(map[string]any)["id"].(string)
		packed = nil
		for _, c := range cases {
			if c.ID == id {
				singles = append(singles, c)
			}
		}
		if len(singles) == 0 {
			core.Harness("replay: scenario %q not in the enumeration", id)
		}
	}
	agree, judged := 0, 0
	hasErrDiag := map[string]bool{} // scenarios for which validation itself reported an error (diagnostic or hard error)
	check := func(v fam.View) {
		ci := info[v.Case.ID]
		if scen.HasErrorDiag(v.Diags) || v.Outcome.Res.GraphErr != "" || v.Outcome.Res.ValidateErr != "" {
			hasErrDiag[v.Case.ID] = true
		}
		realReject := !(v.Hard == "" && !scen.HasErrorDiag(v.Diags))
		modelReject := len(ci.Bad) > 0
		reason := ""
		if realReject {
			reason = v.Reason()
			if v.Hard == "" {
				var codes []string
				for _, d := range v.Diags {
					if d.Severity == 1 {
						codes = append(codes, d.Code)
					}
				}
				reason = "diagnostics: " + strings.Join(uniq(codes), ",")
			}
		}
		run.Outcome(fmt.Sprintf("model-reject=%v real-reject=%v", modelReject, realReject), 1)
		if v.Hard != "" && os.Getenv("VERIF_DEBUG") != "" {
			fmt.Printf("DEBUG hard %s %v: %s\n", v.Case.ID, ci.Perts, stripID(v.Hard, v.Case.ID))
		}
		if ci.Silent != "" {
			run.Outcome("not judged: "+ci.Silent, 1)
			return
		}
		judged++
		run.AddValidated(1)
		switch {
		case modelReject && !realReject:
			run.Report(core.Violation{Oracle: "ill-linked-route-must-be-rejected", Features: v.Feat("rule", ci.Bad[0]),
				What: fmt.Sprintf("the route violates %v but validation reported no error (perturbations: %v)", ci.Bad, ci.Perts), Case: v.Case})
		case !modelReject && realReject:
			run.Report(core.Violation{Oracle: "well-linked-route-must-be-accepted", Features: v.Feat("real", stripID(reason, v.Case.ID)),
				What: fmt.Sprintf("the route satisfies every link rule but was rejected: %s (perturbations: %v)", reason, ci.Perts), Case: v.Case})
		default:
			agree++
		}
	}
	rn := fam.RunOpt(f, scratch, nil, packed, singles, true, check)
	if replay == "" {
		errorTypeTwins(run, scratch)
		controllerTwinsCLI(run, scratch)
		routelessControllersCLI(run, scratch)
	}
	run.AddStates(int64(len(cases)))
	run.AddTransitions(rn.Projects.Load())
	// CLI half: any error anywhere => exit != 0 and neither output file created or modified
	cliRuns, cliRejected := 0, 0
	if replay == "" {
		var cliCases []scen.Case
		for _, c := range cases {
			if c.Features["depth"] != "2" || strings.HasSuffix(c.Features["perturbations"], "conflicting-sibling") {
				cliCases = append(cliCases, c)
			}
		}
		if time.Now().After(deadline) {
			run.Cap("deadline reached before the CLI pass")
			cliCases = nil
		}
		rnc := &scen.Runner{Scratch: scratch, BaseCfg: fam.DefaultCfg}
		results := make([]*scen.CLIResult, len(cliCases))
		projects := make([]*scen.Project, len(cliCases))
		scen.Pool(0, len(cliCases), func(i int) {
			p := rnc.BuildProject(cliCases[i : i+1])
			p.Files["dist/openapi.json"] = "STALE SPEC\n"
			p.Files["dist/routes/gleece.routes.go"] = "// STALE ROUTES\n"
			dir := filepath.Join(scratch, fmt.Sprintf("cli%05d", i))
			if err := p.Write(dir); err != nil {
				core.Harness("cannot write project: %v", err)
			}
			results[i] = scen.RunCLI(dir, []string{"generate", "spec-and-routes", "-c", "./gleece.config.json"}, 120)
			projects[i] = p
			if !rnc.KeepFiles {
				os.RemoveAll(dir)
			}
		})
		for i, c := range cliCases {
			r := results[i]
			ci := info[c.ID]
			cliRuns++
			run.AddTransitions(1)
			feat := map[string]string{"seam": "cli"}
			for k, v := range c.Features {
				feat[k] = v
			}
			staleSpec := r.Files["dist/openapi.json"] == "STALE SPEC\n"
			staleRoutes := r.Files["dist/routes/gleece.routes.go"] == "// STALE ROUTES\n"
			if r.Exit != 0 {
				cliRejected++
				// the statement demands "writes neither" when validation reported an error; failures of later stages
				// (spec generation) are not judged here
				if hasErrDiag[c.ID] && (!staleSpec || !staleRoutes) {
					feat["spec-untouched"], feat["routes-untouched"] = fmt.Sprint(staleSpec), fmt.Sprint(staleRoutes)
					run.Report(core.Violation{Oracle: "failed-command-writes-nothing", Features: feat,
						What: fmt.Sprintf("the command exited %d but modified an output file (spec untouched=%v, routes untouched=%v): %s", r.Exit, staleSpec, staleRoutes, lastLines(r.Output, 3)), Case: c})
				}
			} else if hasErrDiag[c.ID] {
				run.Report(core.Violation{Oracle: "error-diagnostic-fails-the-command", Features: feat, What: "validation reports an error-severity diagnostic for this project but the command exited 0", Case: c})
			} else if staleSpec || staleRoutes {
				run.Report(core.Violation{Oracle: "successful-command-writes-both", Features: feat, What: "the command exited 0 but left a stale output file in place", Case: c})
			}
			if ci.Silent == "" {
				run.AddValidated(1)
				if len(ci.Bad) > 0 && r.Exit == 0 {
					feat["rule"] = ci.Bad[0]
					run.Report(core.Violation{Oracle: "ill-linked-route-must-be-rejected", Features: feat, What: fmt.Sprintf("the route violates %v but the command exited 0 and wrote its artifacts", ci.Bad), Case: c})
				}
				if len(ci.Bad) == 0 && r.Exit != 0 && strings.Contains(r.Output, "is not valid Go and was not written") {
					// accepted by validation, refused at generation time because gleece cannot emit compilable code for it
					// (a map-typed body): that is C09's "rejected with an error rather than producing a file", not a link verdict
					run.Outcome("cli: well-linked route refused at generation time (not a link verdict)", 1)
				} else if len(ci.Bad) == 0 && r.Exit != 0 {
					feat["real"] = "cli-exit"
					run.Report(core.Violation{Oracle: "well-linked-route-must-be-accepted", Features: feat, What: "the route satisfies every link rule but the command failed: " + lastLines(r.Output, 3), Case: c})
				}
			}
			run.Outcome(fmt.Sprintf("cli exit0=%v", r.Exit == 0), 1)
		}
	}
	run.Set("judged_scenario_views", judged)
	run.Set("model_and_validator_agree", agree)
	run.Set("cli_runs", cliRuns)
	run.Set("cli_rejected", cliRejected)
	run.Set("pack_bisections", rn.Bisects.Load())
	run.Sample(cases[0])
	run.Sample(cases[len(cases)/2])
	run.Bound = fmt.Sprintf("6 well-formed base routes x every applicable single perturbation (%s) of annotations, template names, parameters, returns and verb: %d scenarios; every scenario of depth <= 1 also through the real CLI with stale output files", map[string]string{"quick": "depth 1, and depth 2 for pairs of annotation/template perturbations", "thorough": "depth 1 and every pair, depth 2"}[tier], len(cases))
	run.Rule = "state = one (base, perturbation set); transition = one run of the real validator (library seam) or of the real CLI; validated = accept/reject decisions compared with the statement's six link rules, plus file-system effects of failing commands"
	run.Assumptions = []string{"routes on which the rules are silent (primitive bodies, annotations bound to the context parameter, error/map parameters) are run but not judged", "a hard error return counts as rejection"}
	os.RemoveAll(scratch)
	run.Finish()
}

func stripID(s, id string) string { return strings.ReplaceAll(s, id, "§") }

func lastLines(s string, n int) string {
	lines := strings.Split(strings.TrimSpace(s), "\n")
	if len(lines) > n {
		lines = lines[len(lines)-n:]
	}
	out := strings.Join(lines, " | ")
	if len(out) > 400 {
		out = out[:400]
	}
	return out
}
