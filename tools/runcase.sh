#!/bin/bash
# runcase.sh <Cxx> <scenario id> — replays one scenario alone by fabricating a replay file (debug helper)
f=$(mktemp /dev/shm/replay-XXXX.json)
echo "{\"property\":\"$1\",\"violation\":{\"oracle\":\"debug\",\"features\":{},\"what\":\"\",\"case\":{\"id\":\"$2\"}}}" > $f
VERIF_DEBUG=1 VERIF_KEEP=1 ./vc $1 replay $f; rm -f $f
