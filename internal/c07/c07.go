// Package c07 decides C07 (component schemas mirror Go declarations, independent of how a type is used) by
// enumerating all compilable two-struct type graphs over six edge kinds, a leaf-type x tag alphabet, a
// cross-package case and metamorphic pairs that differ in one usage site, running them through the real
// pipeline and both spec generators and comparing components.schemas with the type-graph reference model.
package c07

import (
	"fmt"
	"os"
	"sort"
	"strings"

	"verif/internal/core"
	"verif/internal/fam"
	"verif/internal/scen"
	"verif/internal/spec"
)

func baseKind(k string) string {
	for {
		i := strings.IndexByte(k, '(')
		if i < 0 {
			break
		}
		j := strings.IndexByte(k[i:], ')')
		if j < 0 {
			break
		}
		k = k[:i] + k[i+j+1:]
	}
	return strings.ReplaceAll(k, "?", "")
}

func kindOK(got string, want []string) bool {
	g := baseKind(got)
	for _, w := range want {
		if g == w {
			return true
		}
	}
	return false
}

// objectPart splits a struct component into its own object schema and the embedded $refs.
func objectPart(s any) (obj map[string]any, refs []string) {
	m := spec.M(s)
	if all := spec.L(m["allOf"]); len(all) > 0 {
		for _, e := range all {
			em := spec.M(e)
			if r := spec.Str(em["$ref"]); r != "" {
				refs = append(refs, r[strings.LastIndexByte(r, '/')+1:])
			} else if obj == nil {
				obj = em
			}
		}
		sort.Strings(refs)
		return obj, refs
	}
	return m, nil
}

func typeOf(m map[string]any) string {
	switch t := m["type"].(type) {
	case string:
		return t
	case []any:
		for _, x := range t {
			if spec.Str(x) != "null" {
				return spec.Str(x)
			}
		}
	}
	return ""
}

func checkComponents(run *core.Run, v fam.View, ver string, exp fam.TypeExpect) {
	rep := func(oracle, what string, extra ...string) {
		run.Report(core.Violation{Oracle: oracle, Features: v.Feat(append([]string{"version", ver}, extra...)...), What: ver + ": " + what, Case: v.Case, Expected: exp})
	}
	got := v.Schemas(ver)
	optional := map[string]bool{}
	for _, o := range exp.Optional {
		optional[o] = true
	}
	for name := range exp.Schemas {
		if _, ok := got[name]; !ok {
			rep("reachable-type-has-component", fmt.Sprintf("type %s is reachable from a route but components.schemas has no entry for it (has %v)", name, fam.SortedKeys(got)))
		}
	}
	for name := range got {
		if _, ok := exp.Schemas[name]; !ok && !optional[name] {
			rep("only-reachable-types-have-components", fmt.Sprintf("components.schemas has %s, which is not reachable from any route", name))
		}
	}
	for name, es := range exp.Schemas {
		g, ok := got[name]
		if !ok {
			continue
		}
		switch es.Kind {
		case "struct":
			obj, refs := objectPart(g)
			if obj == nil {
				rep("struct-schema-shape", fmt.Sprintf("%s has no object schema: %s", name, spec.Canon(g)))
				continue
			}
			props := spec.M(obj["properties"])
			var gotNames []string
			for n := range props {
				gotNames = append(gotNames, n)
			}
			sort.Strings(gotNames)
			wantNames := fam.SortedKeys(es.Props)
			if strings.Join(gotNames, ",") != strings.Join(wantNames, ",") {
				var extra, missing []string
				for _, n := range gotNames {
					if _, ok := es.Props[n]; !ok {
						extra = append(extra, n)
					}
				}
				for _, n := range wantNames {
					if _, ok := props[n]; !ok {
						missing = append(missing, n)
					}
				}
				oracle := "properties-are-json-visible-fields"
				rep(oracle, fmt.Sprintf("%s has properties %v, its JSON-visible fields are %v", name, gotNames, wantNames), "extra-props", strings.Join(extra, ","), "missing-props", strings.Join(missing, ","))
			}
			for n, kinds := range es.Props {
				if p, ok := props[n]; ok {
					if k := spec.SchemaKind(p); !kindOK(k, kinds) {
						rep("property-type", fmt.Sprintf("%s.%s is documented as %s, the field type maps to %v", name, n, k, kinds))
					}
				}
			}
			// what a property says beyond its type (description, deprecated, enum) is its own field's, never a sibling's
			for n, own := range es.Docs {
				p := spec.M(props[n])
				if p == nil {
					continue
				}
				if d := strings.TrimSpace(spec.Str(p["description"])); d != "" && d != own {
					rep("property-description-is-the-field's-own", fmt.Sprintf("%s.%s is described as %q, the field's own comment is %q", name, n, d, own))
				}
				if dep, _ := p["deprecated"].(bool); dep && n != "t2" {
					rep("property-description-is-the-field's-own", fmt.Sprintf("%s.%s is marked deprecated, only t2 is", name, n))
				}
				if en := spec.L(p["enum"]); len(en) > 0 && n != "s2" {
					rep("property-description-is-the-field's-own", fmt.Sprintf("%s.%s lists enum values %s, only s2 declares any", name, n, spec.Canon(p["enum"])))
				}
			}
			var gotReq []string
			for _, r := range spec.L(obj["required"]) {
				gotReq = append(gotReq, spec.Str(r))
			}
			sort.Strings(gotReq)
			wantReq := append([]string(nil), es.Required...)
			sort.Strings(wantReq)
			if strings.Join(gotReq, ",") != strings.Join(wantReq, ",") {
				rep("required-list", fmt.Sprintf("%s requires %v, the fields validated as required are %v", name, gotReq, wantReq))
			}
			wantRefs := append([]string(nil), es.AllOf...)
			sort.Strings(wantRefs)
			if strings.Join(refs, ",") != strings.Join(wantRefs, ",") {
				rep("embedded-via-allof", fmt.Sprintf("%s composes %v via allOf, it embeds %v", name, refs, wantRefs))
			}
		case "enum":
			m := spec.M(g)
			var vals []string
			for _, x := range spec.L(m["enum"]) {
				vals = append(vals, strings.Trim(spec.Canon(x), `"`))
			}
			sort.Strings(vals)
			want := append([]string(nil), es.Values...)
			sort.Strings(want)
			if strings.Join(vals, ",") != strings.Join(want, ",") {
				rep("enum-lists-declared-constants", fmt.Sprintf("%s lists %v, the declared constants are %v", name, vals, want))
			}
			if t := typeOf(m); t != es.Base {
				rep("enum-base-type", fmt.Sprintf("%s has type %q, the enum's base type maps to %q", name, t, es.Base))
			}
		case "alias":
			if t := typeOf(spec.M(g)); t != es.Base {
				rep("alias-maps-to-underlying", fmt.Sprintf("%s has type %q, its underlying primitive maps to %q", name, t, es.Base))
			}
			if en := spec.L(spec.M(g)["enum"]); len(en) > 0 {
				rep("alias-maps-to-underlying", fmt.Sprintf("%s is an alias without constants of its own, yet it lists enum values %s", name, spec.Canon(spec.M(g)["enum"])), "alias-lists-foreign-constants", "true")
			}
		}
	}
	if _, ok := v.Docs[ver].Schemas()["Rfc7807Error"]; !ok {
		rep("rfc7807-present-when-plain-error", "a route returns a plain error but Rfc7807Error is not among the components")
	}
}

func Main(tier, replay string) {
	run := core.NewRun("C07", tier)
	scratch := scen.MkScratch("c07")
	defer os.RemoveAll(scratch)
	f, exp, pairs := fam.Types(tier)
	var packed, singles []scen.Case
	for _, c := range f.Cases {
		if c.Features["mutual"] == "true" {
			singles = append(singles, c) // rejected with a hard error: never packed
		} else {
			packed = append(packed, c)
		}
	}
	if replay != "" {
		singles = nil
		_, v := core.LoadReplay(replay)
		id, _ := v.Case.(map[string]any)["id"].(string)
		packed = nil
		for _, c := range f.Cases {
			if c.ID == id || strings.Contains(v.Features["pair"], c.ID) {
				singles = append(singles, c)
			}
		}
		if len(singles) == 0 {
			core.Harness("replay: scenario %q not in the enumeration", id)
		}
	} else if tier == "thorough" {
		singles = f.Cases
	} else {
		for i, c := range packed {
			if i%10 == 0 || c.Features["family"] != "type-graph" && i%3 == 0 {
				singles = append(singles, c)
			}
		}
	}
	acc, rej := 0, 0
	rejReasons := map[string]int{}
	neutral := map[string]map[string]map[string]string{} // single? no: id -> ver -> de-namespaced type -> neutral JSON
	rn := fam.Run(f, scratch, nil, packed, singles, func(v fam.View) {
		if !v.Accepted {
			rej++
			r := v.Reason()
			if os.Getenv("VERIF_DEBUG") != "" {
				fmt.Printf("DEBUG rejected %s %v: %s\n", v.Case.ID, v.Case.Features, r)
			}
			if len(r) > 90 {
				r = r[:90]
			}
			rejReasons[v.Case.Features["family"]+": "+stripID(r, v.Case.ID)]++
			run.Outcome("rejected "+v.Case.Features["family"], 1)
			return
		}
		acc++
		run.Outcome("accepted "+v.Case.Features["family"], 1)
		for _, ver := range []string{"3.0.0", "3.1.0"} {
			checkComponents(run, v, ver, exp[v.Case.ID])
			run.AddValidated(1)
			if v.Case.Features["family"] == "type-meta" {
				if neutral[v.Case.ID] == nil {
					neutral[v.Case.ID] = map[string]map[string]string{}
				}
				m := map[string]string{}
				for name, s := range v.Schemas(ver) {
					m[strings.ReplaceAll(name, v.Case.ID, "")] = strings.ReplaceAll(spec.Canon(spec.Neutral(s)), v.Case.ID, "")
				}
				neutral[v.Case.ID][ver] = m
			}
		}
	})
	// metamorphic: a type's schema is a function of its declaration alone
	caseByID := map[string]scen.Case{}
	for _, c := range f.Cases {
		caseByID[c.ID] = c
	}
	for _, p := range pairs {
		for _, ver := range []string{"3.0.0", "3.1.0"} {
			b, okb := neutral[p.Base][ver]
			vr, okv := neutral[p.Variant][ver]
			if !okb || !okv {
				continue
			}
			for _, t := range p.Types {
				run.AddValidated(1)
				if b[t] != vr[t] {
					feat := map[string]string{"meta": p.What, "type": t, "version": ver, "pair": p.Base + "," + p.Variant}
					run.Report(core.Violation{Oracle: "schema-is-function-of-declaration", Features: feat,
						What: fmt.Sprintf("%s: component %s changes when the project adds '%s': %s  vs  %s", ver, t, p.What, b[t], vr[t]), Case: caseByID[p.Variant]})
				}
			}
		}
	}
	run.AddStates(int64(len(f.Cases)))
	run.AddTransitions(rn.Projects.Load())
	run.Set("scenario_views_accepted", acc)
	run.Set("scenario_views_rejected", rej)
	run.Set("rejection_reasons", rejReasons)
	run.Set("metamorphic_pairs", len(pairs))
	run.Set("pack_bisections", rn.Bisects.Load())
	run.Sample(f.Cases[0])
	run.Sample(f.Cases[len(f.Cases)-1])
	run.Bound = fmt.Sprintf("%d type scenarios: every compilable labelled digraph on 2 structs over edge kinds {none,T,*T,[]T,map[string]T,embed} x root usages; 29 leaf kinds x 10 tag variants; %d metamorphic pairs; 1 cross-package graph; field-doc ownership; 11 container/pointer/embedding composites x 2 usages; both OpenAPI versions", len(f.Cases), len(pairs))
	run.Rule = "state = one set of type declarations plus the routes using them; transition = one run of the real pipeline + spec generators over a generated project; validated = per-version comparisons of components.schemas with the type-graph model, plus pairwise comparisons of shared components across metamorphic variants"
	run.Assumptions = []string{"formats and nullability are not judged", "a component for the type of a field that is not JSON-visible is neither demanded nor forbidden", "an alias-typed field may be documented by reference or by its underlying primitive"}
	os.RemoveAll(scratch)
	run.Finish()
}

func stripID(s, id string) string { return strings.ReplaceAll(s, id, "§") }
